"""Generic analyses over CFGs: inlining, reachability, must-pass, projected trace enumeration."""
from __future__ import annotations

import ast
from typing import Callable, Iterable

from .cfg import CFG, Node, build_cfg
from .model import AnalysisError, FuncInfo

ALL_KINDS = ("n", "T", "F", "exc", "cancel", "raise")
NORMAL_KINDS = ("n", "T", "F")


def is_suspension(n: Node) -> bool:
    """A point at which the running task can be suspended and therefore cancelled."""
    if n.meta.get("inlined_await"):
        return False
    if n.kind == "await":
        return True
    if n.kind == "iter" and n.meta.get("async"):
        return True
    return False


# ----------------------------------------------------------------------------- inlining
class InlinedCFG(CFG):
    pass


def _substituted(cal: FuncInfo, call: ast.Call) -> FuncInfo:
    """A copy of callee `cal` whose parameters are replaced by the (simple) argument expressions of `call` - beta reduction, so that the
    inlined body reads in the caller's terms (`ttl is None` becomes `self.ttl is None`)."""
    import copy

    params = [p.arg for p in cal.params()]
    if cal.cls is not None and "staticmethod" not in cal.decorators and params and isinstance(call.func, ast.Attribute):
        params = params[1:]
    binding: dict[str, ast.expr] = {}
    for i, a in enumerate(call.args):
        if isinstance(a, ast.Starred) or i >= len(params):
            break
        binding[params[i]] = a
    for k in call.keywords:
        if k.arg is not None:
            binding[k.arg] = k.value

    def simple(e):
        return isinstance(e, (ast.Name, ast.Attribute, ast.Constant)) and all(isinstance(x, (ast.Name, ast.Attribute, ast.Constant, ast.Load)) for x in ast.walk(e))

    binding = {k: v for k, v in binding.items() if simple(v)}
    # parameters that are re-assigned inside the callee cannot be substituted
    for n in ast.walk(cal.node):
        if isinstance(n, ast.Name) and isinstance(n.ctx, (ast.Store, ast.Del)) and n.id in binding:
            binding.pop(n.id)
    if not binding:
        return cal

    class T(ast.NodeTransformer):
        def visit_Name(self, node):
            if isinstance(node.ctx, ast.Load) and node.id in binding:
                return copy.deepcopy(binding[node.id])
            return node

    node = T().visit(copy.deepcopy(cal.node))
    ast.fix_missing_locations(node)
    clone = FuncInfo(cal.qualname, cal.name, node, cal.module, cal.cls, cal.parent, dict(cal.nested))
    return clone


def _guarded_by_deref(fn: ast.AST, ret: ast.AST, name: str) -> bool:
    """ret sits in the true branch of an `if` whose test reads an attribute of `name` (so `name` is not None there)."""
    def walk(stmts, guarded):
        for st in stmts:
            if st is ret:
                return guarded
            if isinstance(st, ast.If):
                g2 = guarded or any(isinstance(a, ast.Attribute) and isinstance(a.value, ast.Name) and a.value.id == name for a in ast.walk(st.test))
                r = walk(st.body, g2)
                if r is not None:
                    return r
                r = walk(st.orelse, guarded)
                if r is not None:
                    return r
            else:
                for fld in ("body", "orelse", "finalbody"):
                    sub = getattr(st, fld, None)
                    if isinstance(sub, list) and sub and isinstance(sub[0], ast.stmt):
                        r = walk(sub, guarded)
                        if r is not None:
                            return r
                for h in getattr(st, "handlers", []) or []:
                    r = walk(h.body, guarded)
                    if r is not None:
                        return r
        return None
    return bool(walk(getattr(fn, "body", []), False))


def inline(
    root: FuncInfo,
    resolver,
    depth: int = 4,
    policy: Callable[[Node, FuncInfo], bool] | None = None,
    max_nodes: int = 20000,
    substitute: bool = False,
) -> CFG:
    """Clone root's CFG, replacing calls to repid functions by the callee bodies (bounded depth).

    * a sync callee is inlined at the call node;
    * an async callee is inlined only when the call is the direct operand of `await`
      (the await node is then marked `inlined_await`: it is not itself a suspension point);
    * several possible callees (class-hierarchy analysis) become alternative branches;
    * callee exception exit -> the call's `exc` successors; callee cancel exit -> the await's `cancel`
      successors; callee base-exception exit -> the root's bexit (handlers for such classes are checked
      by dedicated rules, not routed here).
    """
    g = InlinedCFG(root)

    def emit(func: FuncInfo, stack: tuple, d: int, active: frozenset) -> dict:
        src = build_cfg(func)
        mapping: dict[int, Node] = {}
        top = not stack
        for n in src.nodes:
            if top and n.kind in ("entry", "exit", "xexit", "cexit", "bexit"):
                mapping[n.id] = {"entry": g.entry, "exit": g.exit, "xexit": g.xexit, "cexit": g.cexit, "bexit": g.bexit}[n.kind]
                continue
            c = g.new(n.kind, n.ast, n.stmt, n.label, callee=n.callee, awaited=n.awaited, in_comp=n.in_comp, target=n.target)
            c.func = func
            c.meta = dict(n.meta)
            c.stack = stack
            mapping[n.id] = c
            if len(g.nodes) > max_nodes:
                raise AnalysisError(f"inlining {root.qualname}: graph too large")
        # which await wraps which call
        await_of: dict[int, Node] = {}
        for n in src.nodes:
            if n.kind == "await" and isinstance(n.ast, ast.Await) and isinstance(n.ast.value, ast.Call):
                for c2 in src.nodes:
                    if c2.kind == "call" and c2.ast is n.ast.value:
                        await_of[c2.id] = n
        targets_of: dict[int, list[FuncInfo]] = {}
        for n in src.nodes:
            targets: list[FuncInfo] = []
            if n.kind == "call" and d > 0 and not n.in_comp:
                for cal in resolver.callees(func, n.ast):
                    if isinstance(cal.node, ast.Lambda):
                        continue
                    if cal.qualname in active:
                        continue
                    if cal.is_async and n.id not in await_of:
                        continue
                    if _is_generator(cal):
                        continue
                    if policy is not None and not policy(n, cal):
                        continue
                    targets.append(cal)
            if targets:
                targets_of[n.id] = targets
        stripped_awaits = {await_of[i].id for i in targets_of if i in await_of}
        for n in src.nodes:
            me = mapping[n.id]
            targets = targets_of.get(n.id, [])
            if not targets:
                for y, k in src.succ[n.id]:
                    if n.id in stripped_awaits and k in ("exc", "cancel"):
                        continue  # exceptions / cancellation come out of the inlined callee body instead
                    g.edge(me, mapping[y], k)
                continue
            me.meta["inlined"] = [t.qualname for t in targets]
            aw = await_of.get(n.id)
            if aw is not None:
                mapping[aw.id].meta["inlined_await"] = True
            normal_succ = [(y, k) for y, k in src.succ[n.id] if k in NORMAL_KINDS]
            exc_succ = [(y, k) for y, k in src.succ[n.id] if k == "exc"]
            cancel_succ = [(y, k) for y, k in src.succ[aw.id] if k == "cancel"] if aw is not None else []
            for t in targets:
                first_new = len(g.nodes)
                if substitute:
                    t = _substituted(t, n.ast)
                sub = emit(t, stack + (f"{func.short()}:{n.lineno}",), d - 1, active | {t.qualname})
                for rn in g.nodes[first_new:]:
                    if rn.kind == "return" and rn.func is t and "ret_site" not in rn.meta and isinstance(rn.ast, ast.Return):
                        rn.meta["ret_site"] = id(n.ast)
                        v = rn.ast.value
                        if v is None or (isinstance(v, ast.Constant) and v.value is None):
                            rn.meta["ret_none"] = True
                        elif isinstance(v, ast.IfExp):
                            rn.meta["ret_none"] = None
                        elif isinstance(v, ast.Name):
                            # a local whose every definition is a non-None expression (e.g. the result of queue.get_nowait())
                            defs = [x.value for x in ast.walk(t.node) if isinstance(x, ast.Assign) and any(isinstance(tt, ast.Name) and tt.id == v.id for tt in x.targets)]
                            # `(only,) = bucket` / `first, *_ = bucket`: an element of a container expression, judged like `bucket[0]`
                            defs += [ast.Subscript(value=x.value, slice=ast.Constant(value=0), ctx=ast.Load()) for x in ast.walk(t.node) if isinstance(x, ast.Assign)
                                     and any(isinstance(tt, (ast.Tuple, ast.List)) and any(isinstance(el, ast.Name) and el.id == v.id for el in tt.elts) for tt in x.targets)]
                            known = bool(defs) and all(not (isinstance(dv, ast.Constant) and dv.value is None) and not isinstance(dv, (ast.IfExp, ast.Name)) for dv in defs) \
                                and v.id not in [a.arg for a in t.params()]
                            if not known and _guarded_by_deref(t.node, rn.ast, v.id):
                                known = True  # returned under a test that already dereferenced it (`if x.key == k: return x`)
                            rn.meta["ret_none"] = False if known else None
                        else:
                            rn.meta["ret_none"] = False
                g.edge(me, sub["entry"], "n")
                for y, k in normal_succ:
                    g.edge(sub["exit"], mapping[y], k)
                for y, k in exc_succ:
                    g.edge(sub["xexit"], mapping[y], "exc")
                if not exc_succ:
                    g.edge(sub["xexit"], g.xexit, "exc")
                for y, k in cancel_succ:
                    g.edge(sub["cexit"], mapping[y], "cancel")
                if not cancel_succ:
                    g.edge(sub["cexit"], g.cexit, "cancel")
                g.edge(sub["bexit"], g.bexit, "n")
        return {k: mapping[getattr(src, k).id] for k in ("entry", "exit", "xexit", "cexit", "bexit")}

    emit(root, (), depth, frozenset({root.qualname}))
    return g


def _is_generator(f: FuncInfo) -> bool:
    for n in ast.walk(f.node):
        if isinstance(n, (ast.Yield, ast.YieldFrom)):
            return True
    return False


# ----------------------------------------------------------------------------- reachability
def reach(g: CFG, starts: Iterable[int], kinds=ALL_KINDS, blocked: set[int] | frozenset = frozenset(),
          include_start: bool = False) -> set[int]:
    """Nodes reachable from `starts` by >= 1 edge of the given kinds, never entering a blocked node."""
    seen: set[int] = set()
    todo = list(starts)
    first = set(todo)
    while todo:
        x = todo.pop()
        for y, k in g.succ[x]:
            if k not in kinds or y in blocked or y in seen:
                continue
            seen.add(y)
            todo.append(y)
    if include_start:
        seen |= first
    return seen


def reach_back(g: CFG, starts: Iterable[int], kinds=ALL_KINDS, blocked=frozenset()) -> set[int]:
    seen: set[int] = set()
    todo = list(starts)
    while todo:
        x = todo.pop()
        for y, k in g.pred[x]:
            if k not in kinds or y in blocked or y in seen:
                continue
            seen.add(y)
            todo.append(y)
    return seen


def live_nodes(g: CFG, kinds=ALL_KINDS) -> set[int]:
    return reach(g, [g.entry.id], kinds, include_start=True)


def must_pass(g: CFG, src: int, dsts: Iterable[int], via: Iterable[int], kinds=ALL_KINDS) -> bool:
    """True iff every path src ->* dst (dst in dsts) contains a node of `via` (src/dst themselves count)."""
    via = set(via)
    dsts = set(dsts)
    if src in via:
        return True
    r = reach(g, [src], kinds, blocked=via)
    return not (r & dsts)


def dominated_by(g: CFG, node: int, doms: Iterable[int], kinds=ALL_KINDS) -> bool:
    """Every path entry ->* node passes through one of doms."""
    return must_pass(g, g.entry.id, [node], doms, kinds)


def find_path(g: CFG, src: int, dsts: set[int], kinds=ALL_KINDS, blocked=frozenset()) -> list[int] | None:
    """A shortest path (list of node ids) from src to any node in dsts."""
    prev: dict[int, int] = {}
    todo = [src]
    seen = {src}
    while todo:
        x = todo.pop(0)
        for y, k in g.succ[x]:
            if k not in kinds or y in blocked or y in seen:
                continue
            prev[y] = x
            if y in dsts:
                path = [y]
                while path[-1] != src:
                    path.append(prev[path[-1]])
                return list(reversed(path))
            seen.add(y)
            todo.append(y)
    return None


def describe_path(g: CFG, path: list[int], keep: Callable[[Node], bool] | None = None) -> list[str]:
    out = []
    for i in path:
        n = g.nodes[i]
        if keep is None or keep(n) or n.kind in ("entry", "exit", "xexit", "cexit", "bexit"):
            out.append(f"{n.func.short()}:{n.lineno or ''} {n.kind} {n.label[:80]}")
    return out


# ----------------------------------------------------------------------------- projected traces
def traces(
    g: CFG,
    symbol: Callable[[Node], object],
    kinds=NORMAL_KINDS,
    start: int | None = None,
    loop_bound: int = 2,
    max_traces: int = 50000,
    with_exit: bool = True,
    stop: Callable[[Node], bool] | None = None,
    env: dict | None = None,
) -> set[tuple]:
    """All distinct sequences of symbols along paths from start to an exit.

    `symbol(node)` returns None for irrelevant nodes. The graph is first contracted to the relevant
    nodes; each relevant node may occur at most `loop_bound` times on one path (loops unrolled that
    often). The exit reached is appended as '$exit' / '$xexit' / '$cexit' / '$bexit'.
    """
    start = g.entry.id if start is None else start
    exits = {g.exit.id: "$exit", g.xexit.id: "$xexit", g.cexit.id: "$cexit", g.bexit.id: "$bexit"}
    sym: dict[int, object] = {}
    for n in g.nodes:
        if n.id in exits:
            continue
        s = symbol(n)
        if s is not None:
            sym[n.id] = s
    # correlated branches: tests on a plain local boolean (`if flag:` ... `if flag:`) must agree along one path
    corr_test: dict[int, tuple[str, bool]] = {}
    for n in g.nodes:
        if n.kind == "test" and n.ast is not None:
            e, neg = n.ast, False
            while isinstance(e, ast.UnaryOp) and isinstance(e.op, ast.Not):
                e, neg = e.operand, not neg
            if isinstance(e, ast.Name):
                corr_test[n.id] = (f"{id(n.func.node)}:{e.id}", neg)
    corr_names = {v for v, _ in corr_test.values()}
    corr_store: dict[int, str] = {}
    for n in g.nodes:
        if n.kind == "store" and n.target is not None and f"{id(n.func.node)}:{n.target}" in corr_names:
            corr_store[n.id] = f"{id(n.func.node)}:{n.target}"
    # return value correlation: an inlined callee returning None / not None decides a following `(x := f()) is None` test
    ret_nodes: dict[int, tuple[int, bool]] = {}
    for n in g.nodes:
        if n.kind == "return" and n.meta.get("ret_site") is not None and n.meta.get("ret_none") is not None:
            ret_nodes[n.id] = (n.meta["ret_site"], bool(n.meta["ret_none"]))
    sites = {sid for sid, _ in ret_nodes.values()}
    ret_test: dict[int, tuple[int, bool]] = {}
    for n in g.nodes:
        if n.kind == "test" and isinstance(n.ast, ast.Compare) and len(n.ast.ops) == 1 and isinstance(n.ast.ops[0], (ast.Is, ast.IsNot)) \
                and isinstance(n.ast.comparators[0], ast.Constant) and n.ast.comparators[0].value is None:
            l = n.ast.left
            if isinstance(l, ast.NamedExpr):
                l = l.value
            if isinstance(l, ast.Await):
                l = l.value
            if isinstance(l, ast.Name):
                # `x = f()` ... `if x is None`: every assignment of x in that function is the same inlined call
                vals = [a.value for a in ast.walk(n.func.node) if isinstance(a, ast.Assign) and any(isinstance(t, ast.Name) and t.id == l.id for t in a.targets)]
                vals += [a.value for a in ast.walk(n.func.node) if isinstance(a, ast.AnnAssign) and isinstance(a.target, ast.Name) and a.target.id == l.id and a.value is not None]
                vals = [v.value if isinstance(v, ast.Await) else v for v in vals]
                if len(vals) == 1 and isinstance(vals[0], ast.Call):
                    l = vals[0]
            if isinstance(l, ast.Call) and id(l) in sites:
                ret_test[n.id] = (id(l), isinstance(n.ast.ops[0], ast.IsNot))
    relevant = set(sym) | set(exits) | set(corr_test) | set(corr_store) | set(ret_nodes) | set(ret_test)

    nxt_cache: dict[int, list[tuple[int, str]]] = {}

    def nxt(x: int) -> list[tuple[int, str]]:
        """(next relevant node, kind of the first edge leaving x on that way)"""
        if x in nxt_cache:
            return nxt_cache[x]
        out: set[tuple[int, str]] = set()
        verdict0 = None
        if env is not None and g.nodes[x].kind == "test" and isinstance(g.nodes[x].ast, ast.AST):
            verdict0 = eval_cond(g.nodes[x].ast, env, g.nodes[x].func)
        for y0, k0 in g.succ[x]:
            if k0 not in kinds:
                continue
            if (verdict0 is True and k0 == "F") or (verdict0 is False and k0 == "T"):
                continue
            if y0 in relevant:
                out.add((y0, k0))
                continue
            seen: set[int] = {y0}
            todo = [y0]
            while todo:
                a = todo.pop()
                verdict = None
                if env is not None and g.nodes[a].kind == "test" and isinstance(g.nodes[a].ast, ast.AST):
                    verdict = eval_cond(g.nodes[a].ast, env, g.nodes[a].func)
                for y, k in g.succ[a]:
                    if k not in kinds or y in seen:
                        continue
                    if (verdict is True and k == "F") or (verdict is False and k == "T"):
                        continue
                    seen.add(y)
                    if y in relevant:
                        out.add((y, k0))
                    else:
                        todo.append(y)
        nxt_cache[x] = sorted(out)
        return nxt_cache[x]

    results: set[tuple] = set()
    # iterative DFS with visit counts and a valuation of correlated local booleans
    stack: list[tuple[int, tuple, dict, tuple]] = [(start, (), {}, ())]
    steps = 0
    while stack:
        x, tr, counts, val = stack.pop()
        steps += 1
        if steps > 2_000_000:
            raise AnalysisError(f"trace enumeration exploded in {g.func.qualname}")
        for y, k0 in nxt(x):
            nval = val
            if x in ret_test and k0 in ("T", "F"):
                site, neg = ret_test[x]
                d0 = dict(val)
                key0 = f"$ret:{site}"
                if key0 in d0:
                    is_none = d0[key0]
                    taken_true = (k0 == "T")
                    if taken_true != (is_none != neg):
                        continue
            if x in corr_test and k0 in ("T", "F"):
                name, neg = corr_test[x]
                outcome = (k0 == "T") != neg
                d = dict(val)
                if name in d and d[name] != outcome:
                    continue
                d[name] = outcome
                nval = tuple(sorted(d.items()))
            if y in exits:
                results.add(tr + ((exits[y],) if with_exit else ()))
                continue
            c = counts.get(y, 0)
            if c >= loop_bound:
                continue
            nc = dict(counts)
            nc[y] = c + 1
            if y in corr_store:
                nval = tuple((a, b) for a, b in nval if a != corr_store[y])
            if y in ret_nodes:
                site, is_none = ret_nodes[y]
                d1 = dict(nval)
                d1[f"$ret:{site}"] = is_none
                nval = tuple(sorted(d1.items()))
            ntr = tr + ((sym[y],) if y in sym else ())
            if y in sym and stop is not None and stop(g.nodes[y]):
                results.add(ntr + (("$stop",) if with_exit else ()))
                continue
            stack.append((y, ntr, nc, nval))
        if len(results) > max_traces:
            raise AnalysisError(f"more than {max_traces} distinct traces in {g.func.qualname}")
    return results


def count_range(trs: Iterable[tuple], pred: Callable[[object], bool]) -> tuple[int, int]:
    lo, hi = 10**9, -1
    for t in trs:
        c = sum(1 for s in t if pred(s))
        lo = min(lo, c)
        hi = max(hi, c)
    return lo, hi


# ----------------------------------------------------------------------------- conditions under assumptions
_NEG = {ast.NotEq: ast.Eq, ast.IsNot: ast.Is, ast.NotIn: ast.In, ast.GtE: ast.Lt, ast.LtE: ast.Gt}
_OPTXT = {ast.Eq: "==", ast.Is: "is", ast.In: "in", ast.Lt: "<", ast.Gt: ">"}


def atom_text(e: ast.AST) -> str:
    return ast.unparse(e)


def cond_atoms(e: ast.AST) -> list[str]:
    """Canonical atoms of a boolean expression (negated comparison operators folded onto their positive form)."""
    out: list[str] = []

    def rec(x: ast.AST) -> None:
        if isinstance(x, ast.BoolOp):
            for v in x.values:
                rec(v)
        elif isinstance(x, ast.UnaryOp) and isinstance(x.op, ast.Not):
            rec(x.operand)
        elif isinstance(x, ast.NamedExpr):
            rec(x.value)
        elif isinstance(x, ast.Compare) and len(x.ops) == 1:
            op = type(x.ops[0])
            pos = _NEG.get(op, op)
            l, r = x.left, x.comparators[0]
            if isinstance(l, ast.NamedExpr):
                l = l.value
            out.append(f"{atom_text(l)} {_OPTXT.get(pos, pos.__name__)} {atom_text(r)}")
        else:
            out.append(atom_text(x))

    rec(e)
    seen = []
    for a in out:
        if a not in seen:
            seen.append(a)
    return seen


def _single_local_def(func, name: str):
    if func is None:
        return None
    defs = []
    for n in ast.walk(func.node):
        if isinstance(n, ast.Assign) and len(n.targets) == 1 and isinstance(n.targets[0], ast.Name) and n.targets[0].id == name:
            defs.append(n.value)
        elif isinstance(n, ast.AnnAssign) and isinstance(n.target, ast.Name) and n.target.id == name and n.value is not None:
            defs.append(n.value)
        elif isinstance(n, (ast.AugAssign, ast.NamedExpr)) and isinstance(n.target, ast.Name) and n.target.id == name:
            defs.append(None)
        elif isinstance(n, (ast.For, ast.AsyncFor, ast.comprehension)) and any(isinstance(t, ast.Name) and t.id == name for t in ast.walk(n.target)):
            defs.append(None)
        elif isinstance(n, ast.arg) and n.arg == name:
            defs.append(None)
    if len(defs) == 1 and defs[0] is not None:
        return defs[0]
    return None


def eval_cond(e: ast.AST, env: dict, func=None) -> bool | None:
    """Three-valued evaluation of a condition under `env`.

    env maps canonical atom text -> bool, and optionally ("ord", x_text, y_text) -> "lt" | "eq" | "gt"
    (finite-ordering abstraction: the two quantities are touched only through comparisons).
    Callables under keys starting with "*" classify atoms that are not listed: fn(text, ast) -> bool | None.
    """
    if isinstance(e, ast.Constant):
        return bool(e.value)
    if isinstance(e, ast.NamedExpr):
        return eval_cond(e.value, env, func)
    if isinstance(e, ast.UnaryOp) and isinstance(e.op, ast.Not):
        v = eval_cond(e.operand, env, func)
        return None if v is None else (not v)
    if isinstance(e, ast.BoolOp):
        vals = [eval_cond(v, env, func) for v in e.values]
        if isinstance(e.op, ast.And):
            if any(v is False for v in vals):
                return False
            return True if all(v is True for v in vals) else None
        if any(v is True for v in vals):
            return True
        return False if all(v is False for v in vals) else None
    if isinstance(e, ast.Compare) and len(e.ops) == 1:
        op = type(e.ops[0])
        l, r = e.left, e.comparators[0]
        if isinstance(l, ast.NamedExpr):
            l = l.value
        # explicit emptiness tests are the truthiness of the collection: len(x) > 0, len(x) != 0, len(x) >= 1 / len(x) == 0, len(x) < 1
        if isinstance(l, ast.Call) and isinstance(l.func, ast.Name) and l.func.id == "len" and len(l.args) == 1 and isinstance(r, ast.Constant) and r.value in (0, 1) \
                and not isinstance(r.value, bool):
            nonempty = {(ast.Gt, 0): True, (ast.NotEq, 0): True, (ast.GtE, 1): True, (ast.Eq, 0): False, (ast.Lt, 1): False, (ast.LtE, 0): False}.get((op, r.value))
            if nonempty is not None:
                v = eval_cond(l.args[0], env, func)
                if v is not None:
                    return v if nonempty else (not v)
        lt, rt = atom_text(l), atom_text(r)
        for (a, b, flip) in ((lt, rt, False), (rt, lt, True)):
            o = env.get(("ord", a, b))
            if o is not None:
                if flip:
                    o = {"lt": "gt", "gt": "lt", "eq": "eq"}[o]
                table = {
                    ast.Lt: o == "lt", ast.LtE: o in ("lt", "eq"), ast.Gt: o == "gt", ast.GtE: o in ("gt", "eq"),
                    ast.Eq: o == "eq", ast.NotEq: o != "eq",
                }
                if op in table:
                    return table[op]
        neg = op in _NEG
        pos = _NEG.get(op, op)
        key = f"{lt} {_OPTXT.get(pos, pos.__name__)} {rt}"
        v = env.get(key)
        if v is None and pos is ast.Eq:
            v = env.get(f"{rt} == {lt}")
        if v is None:
            v = _env_fn(env, key, ast.Compare(left=l, ops=[pos()], comparators=[r]))
        if v is None and isinstance(l, ast.Constant) and pos is ast.Is and isinstance(r, ast.Constant):
            v = l.value is r.value
        if v is None and isinstance(l, ast.Name):
            # `tmp = a.b.c` ... `if tmp is None`: classify the comparison on the attribute chain the temporary stands for
            d = _single_local_def(func, l.id)
            if isinstance(d, (ast.Attribute, ast.Name, ast.Subscript)):
                v = _env_fn(env, f"{atom_text(d)} {_OPTXT.get(pos, pos.__name__)} {rt}", ast.Compare(left=d, ops=[pos()], comparators=[r]))
            elif isinstance(d, ast.IfExp):
                # `tmp = A if T else B`: decide T first, then compare the chosen arm
                tv = eval_cond(d.test, env, func)
                if tv is not None:
                    arm = d.body if tv else d.orelse
                    v = eval_cond(ast.Compare(left=arm, ops=[pos()], comparators=[r]), env, func)
        if v is None:
            return None
        return (not v) if neg else v
    key = atom_text(e)
    v = env.get(key)
    if v is None:
        v = _env_fn(env, key, e)
    if v is None and isinstance(e, ast.Name):
        # a local boolean with a single definition: evaluate its defining expression
        d = _single_local_def(func, e.id)
        if d is not None and not (isinstance(d, ast.Name) and d.id == e.id):
            return eval_cond(d, env, func if isinstance(d, ast.Call) else None)
    if v is None and isinstance(e, ast.Call):
        return _predicate_value(func, e, env)
    return v


PREDICATE_RESOLVER = None  # set by the engine: (func, call) -> list[FuncInfo]
_PRED_DEPTH = [0]


def _predicate_value(func, call: ast.Call, env: dict):
    """Value of a call to a small synchronous predicate helper (nested function / private method) under env: evaluate its returns."""
    if PREDICATE_RESOLVER is None or func is None or _PRED_DEPTH[0] > 2:
        return None
    try:
        cals = PREDICATE_RESOLVER(func, call)
    except Exception:  # noqa: BLE001
        return None
    if len(cals) != 1:
        return None
    cal = cals[0]
    if cal.is_async or isinstance(cal.node, ast.Lambda) or len(list(ast.walk(cal.node))) > 400:
        return None
    g = build_cfg(cal)
    _PRED_DEPTH[0] += 1
    try:
        r = reach_under(g, env, NORMAL_KINDS)
        vals = set()
        for n in g.nodes:
            if n.kind == "return" and n.id in r and isinstance(n.ast, ast.Return):
                v = n.ast.value
                vals.add(eval_cond(v, env, cal) if v is not None else False)
    finally:
        _PRED_DEPTH[0] -= 1
    if len(vals) == 1:
        return vals.pop()
    return None


def _env_fn(env: dict, key: str, node: ast.AST):
    """Classifier functions stored under keys starting with '*': fn(atom_text, atom_ast) -> bool | None."""
    for k, fn in env.items():
        if isinstance(k, str) and k.startswith("*"):
            v = fn(key, node)
            if v is not None:
                return v
    return None


def reach_under(g: CFG, env: dict, kinds=NORMAL_KINDS + ("raise",), start: int | None = None,
                blocked=frozenset()) -> set[int]:
    """Nodes reachable from start when branch outcomes contradicted by `env` are pruned."""
    start = g.entry.id if start is None else start
    seen = {start}
    todo = [start]
    while todo:
        x = todo.pop()
        n = g.nodes[x]
        verdict = None
        if n.kind == "test" and isinstance(n.ast, ast.AST):
            verdict = eval_cond(n.ast, env, n.func)
        for y, k in g.succ[x]:
            if k not in kinds or y in blocked or y in seen:
                continue
            if verdict is True and k == "F":
                continue
            if verdict is False and k == "T":
                continue
            seen.add(y)
            todo.append(y)
    return seen
