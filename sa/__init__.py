"""Repository-specific static analyser for aleksul/repid (stdlib only; never imports repid)."""
