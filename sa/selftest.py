"""Self-test corpus runner: must-fire mutants and must-stay-silent refactors on scratch copies of /repo/repid.

Each corpus entry is a set of exact text substitutions applied to a scratch copy (made under a fresh
mktemp -d, removed at once). Entries whose anchor text is not present in the current tree (because /repo
has changed) are reported as 'skipped', never as failures.
"""
from __future__ import annotations

import os
import shutil
import tempfile
from concurrent.futures import ProcessPoolExecutor

from .model import AnalysisError


def _apply(entry: dict, repo: str) -> str | None:
    """Returns scratch repo path or None when an anchor text is missing / the diff does not apply."""
    tmp = tempfile.mkdtemp(prefix="repid-sa-")
    shutil.copytree(os.path.join(repo, "repid"), os.path.join(tmp, "repid"),
                    ignore=shutil.ignore_patterns("__pycache__"))
    if entry.get("diff"):
        import subprocess

        r = subprocess.run(["patch", "-p1", "-s", "-f", "-F0", "-d", tmp, "-i", entry["diff"]], capture_output=True, text=True)
        if r.returncode != 0:
            shutil.rmtree(tmp, ignore_errors=True)
            return None
        return tmp
    for path, old, new in entry["edits"]:
        p = os.path.join(tmp, path)
        try:
            with open(p, encoding="utf-8") as fh:
                s = fh.read()
        except FileNotFoundError:
            shutil.rmtree(tmp, ignore_errors=True)
            return None
        if s.count(old) != 1:
            shutil.rmtree(tmp, ignore_errors=True)
            return None
        with open(p, "w", encoding="utf-8") as fh:
            fh.write(s.replace(old, new))
    return tmp


def run_entry(args) -> dict:
    entry, prop, repo = args
    from .check import run_rules
    from .engine import known_keys

    tmp = _apply(entry, repo)
    if tmp is None:
        return {"id": entry["id"], "status": "skipped", "why": "anchor text not present in current tree / diff does not apply"}
    try:
        try:
            ctx = run_rules(prop, "quick", tmp)
        except AnalysisError as exc:
            return {"id": entry["id"], "status": "error", "why": str(exc)}
        known = known_keys(prop)
        new = [f for f in ctx.findings if f.key() not in known]
        rules = sorted({f.rule for f in new})
        if entry["expect"] == "fire":
            want = entry.get("rule") if prop == entry["props"][0] else None
            ok = bool(new) and (want is None or any(r.startswith(want) for r in rules))
            return {"id": entry["id"], "status": "ok" if ok else "MISSED", "rules": rules,
                    "why": "" if ok else f"expected a violation{' of ' + want if want else ''}, got {rules}"}
        ok = not new
        return {"id": entry["id"], "status": "ok" if ok else "NOISY", "rules": rules,
                "why": "" if ok else "; ".join(f"{f.rule}: {f.message[:160]}" for f in new[:3])}
    except Exception as exc:  # noqa: BLE001
        return {"id": entry["id"], "status": "error", "why": f"{type(exc).__name__}: {exc}"}
    finally:
        shutil.rmtree(tmp, ignore_errors=True)


def run_for(prop: str, repo: str, jobs: int, main_clean: bool):
    from .corpus import CORPUS
    from .engine import VERIF
    import glob
    import json

    entries = [e for e in CORPUS if prop in e["props"]]
    # independently produced seeded changes of this property (must fire) and behaviour-preserving refactorings (must stay silent)
    for d in sorted(glob.glob(os.path.join(VERIF, "seeded", f"{prop}-*"))):
        if os.path.exists(os.path.join(d, "patch.diff")):
            entries.append({"id": "seeded/" + os.path.basename(d), "props": [prop], "expect": "fire", "rule": None, "edits": [], "diff": os.path.join(d, "patch.diff")})
    for d in sorted(glob.glob(os.path.join(VERIF, "refactors", "*.diff"))):
        entries.append({"id": "refactor/" + os.path.basename(d)[:-5], "props": [prop], "expect": "silent", "edits": [], "diff": d})
    if not entries:
        return {"selftest": {"entries": 0}}, []
    if not main_clean:
        return {"selftest": {"entries": len(entries), "skipped_because": "violations on the analysed tree"}}, []
    with ProcessPoolExecutor(max_workers=max(1, min(jobs, len(entries)))) as ex:
        results = list(ex.map(run_entry, [(e, prop, repo) for e in entries]))
    fails = [f"{r['id']}: {r['status']} {r['why']}" for r in results if r["status"] in ("MISSED", "NOISY", "error")]
    summary = {
        "selftest": {
            "entries": len(entries),
            "must_fire_ok": sum(1 for e, r in zip(entries, results) if e["expect"] == "fire" and r["status"] == "ok"),
            "must_stay_silent_ok": sum(1 for e, r in zip(entries, results) if e["expect"] == "silent" and r["status"] == "ok"),
            "skipped": [r["id"] for r in results if r["status"] == "skipped"],
            "failed": fails,
            "results": [{"id": r["id"], "status": r["status"], "rules": r.get("rules", [])} for r in results],
        }
    }
    return summary, fails


def main() -> int:
    import argparse
    import sys

    from .corpus import CORPUS
    from .model import REPO

    ap = argparse.ArgumentParser()
    ap.add_argument("props", nargs="*")
    ap.add_argument("--repo", default=REPO)
    ap.add_argument("--jobs", type=int, default=16)
    ap.add_argument("--only")
    a = ap.parse_args()
    work = []
    for e in CORPUS:
        if a.only and a.only not in e["id"]:
            continue
        for p in e["props"]:
            if a.props and p not in a.props:
                continue
            work.append((e, p, a.repo))
    with ProcessPoolExecutor(max_workers=a.jobs) as ex:
        res = list(ex.map(run_entry, work))
    bad = 0
    for (e, p, _), r in zip(work, res):
        flag = r["status"]
        if flag in ("MISSED", "NOISY", "error"):
            bad += 1
        print(f"{p} {e['expect']:6s} {flag:8s} {e['id']:50s} {','.join(r.get('rules', []))} {r.get('why', '')[:200]}")
    print(f"{len(work)} entries, {bad} bad")
    return 1 if bad else 0


if __name__ == "__main__":
    import sys

    sys.exit(main())
