"""Annotation-driven receiver / callee resolution (flow-insensitive), with class-hierarchy analysis.

Types are strings: a repid class qualname ("repid.connections.abc.MessageBrokerT"), "type:<qualname>"
for a class object, or "ext:<dotted>" for anything outside repid.
"""
from __future__ import annotations

import ast
from typing import Iterable

from .model import ClassInfo, FuncInfo, ModuleInfo, Program, dotted, unparse

_WRAPPERS = {"Optional", "Union", "ClassVar", "Final", "Annotated"}
_TYPE_WRAPPERS = {"type", "Type"}
_SKIP = {"None", "Any", "object"}


class Resolver:
    def __init__(self, prog: Program) -> None:
        self.prog = prog
        self._proto_impl: dict[str, set[str]] = {}
        self._attr_cache: dict[tuple[str, str], frozenset[str]] = {}
        self._local_cache: dict[tuple[int, str], frozenset[str]] = {}
        self._in_progress: set = set()
        self.unresolved: list[str] = []
        self.resolved_calls = 0
        self._discover_protocol_bindings()
        self._discover_structural()

    # ------------------------------------------------------------------ annotations
    def ann_types(self, m: ModuleInfo, ann: ast.AST | None) -> set[str]:
        if ann is None:
            return set()
        if isinstance(ann, ast.Constant):
            if isinstance(ann.value, str):
                try:
                    return self.ann_types(m, ast.parse(ann.value, mode="eval").body)
                except SyntaxError:
                    return set()
            return set()
        if isinstance(ann, ast.BinOp) and isinstance(ann.op, ast.BitOr):
            return self.ann_types(m, ann.left) | self.ann_types(m, ann.right)
        if isinstance(ann, ast.Subscript):
            base = dotted(ann.value) or ""
            last = base.split(".")[-1]
            sl = ann.slice
            elts = sl.elts if isinstance(sl, ast.Tuple) else [sl]
            if last in _WRAPPERS:
                out: set[str] = set()
                for e in (elts[:1] if last == "Annotated" else elts):
                    out |= self.ann_types(m, e)
                return out
            if last in _TYPE_WRAPPERS:
                return {"type:" + t for e in elts for t in self.ann_types(m, e) if not t.startswith("type:")}
            if last in ("Coroutine", "Awaitable") and elts:
                return self.ann_types(m, elts[-1])
            # generic container etc: keep the container as external
            r = self._name_type(m, base)
            return {r} if r else set()
        d = dotted(ann)
        if d is None:
            return set()
        if d.split(".")[-1] in _SKIP:
            return set()
        r = self._name_type(m, d)
        return {r} if r else set()

    def _name_type(self, m: ModuleInfo, name: str) -> str | None:
        q = self.prog.resolve_name(m, name)
        if q is None:
            return "ext:" + name
        if q in self.prog.classes:
            return q
        if q in self.prog.functions or q in self.prog.modules:
            return None
        return "ext:" + q

    def _discover_protocol_bindings(self) -> None:
        """`X: type[P] = C` / `X: ClassVar[Type["P"]] = C`  =>  C implements protocol P."""
        for c in self.prog.classes.values():
            for name, ann in c.annotations.items():
                val = c.attrs.get(name)
                if val is None:
                    continue
                vq = self.prog.resolve_name(c.module, dotted(val) or "")
                if vq not in self.prog.classes:
                    continue
                for t in self.ann_types(c.module, ann):
                    if t.startswith("type:") and t[5:] in self.prog.classes and t[5:] != vq:
                        self._proto_impl.setdefault(t[5:], set()).add(vq)

    def _discover_structural(self) -> None:
        """A Protocol with >= 2 own public methods is implemented by every class defining all of them."""
        for p in self.prog.classes.values():
            if not any(b.split(".")[-1].split("[")[0] == "Protocol" for b in p.base_exprs):
                continue
            names = {n for n in p.methods if not n.startswith("_")}
            if len(names) < 2:
                continue
            for c in self.prog.classes.values():
                if c is p or any(b.split(".")[-1].split("[")[0] == "Protocol" for b in c.base_exprs):
                    continue
                have = set()
                for k in self.prog.mro(c.qualname):
                    have |= set(k.methods)
                if names <= have:
                    self._proto_impl.setdefault(p.qualname, set()).add(c.qualname)

    def implementations(self, qual: str) -> list[ClassInfo]:
        """qual itself plus subclasses plus protocol implementations (transitively)."""
        out: list[ClassInfo] = []
        seen: set[str] = set()
        todo = [qual]
        while todo:
            q = todo.pop(0)
            if q in seen or q not in self.prog.classes:
                continue
            seen.add(q)
            out.append(self.prog.classes[q])
            todo += [c.qualname for c in self.prog.subclasses(q, transitive=False)]
            todo += sorted(self._proto_impl.get(q, ()))
        return out

    # ------------------------------------------------------------------ expression types
    def type_of(self, f: FuncInfo, e: ast.AST) -> set[str]:
        key = (id(f.node), id(e))
        if key in self._in_progress:
            return set()
        self._in_progress.add(key)
        try:
            return self._type_of(f, e)
        finally:
            self._in_progress.discard(key)

    def _type_of(self, f: FuncInfo, e: ast.AST) -> set[str]:
        m = f.module
        if isinstance(e, ast.Await):
            return self.type_of(f, e.value)
        if isinstance(e, ast.NamedExpr):
            return self.type_of(f, e.value)
        if isinstance(e, ast.BoolOp):
            out: set[str] = set()
            for v in e.values:
                out |= self.type_of(f, v)
            return out
        if isinstance(e, ast.IfExp):
            return self.type_of(f, e.body) | self.type_of(f, e.orelse)
        if isinstance(e, ast.Name):
            return self._name_in_func(f, e.id)
        if isinstance(e, ast.Attribute):
            out = set()
            for t in self.type_of(f, e.value):
                out |= self.attr_types(t, e.attr, f)
            if not out:
                # module attribute (`utils.wait_timestamp`, `asyncio.Queue`) handled by callers
                d = dotted(e)
                if d:
                    q = self.prog.resolve_name(m, d)
                    if q in self.prog.classes:
                        return {"type:" + q}
            return out
        if isinstance(e, ast.Call):
            # super()
            if isinstance(e.func, ast.Name) and e.func.id == "super" and f.cls is not None:
                return {"super:" + self._owner_class(f).qualname}
            if isinstance(e.func, ast.Name) and e.func.id == "cast" and len(e.args) == 2:
                return self.ann_types(m, e.args[0]) or self.type_of(f, e.args[1])
            out = set()
            for callee in self.callees(f, e, record=False):
                if callee.name in ("__init__", "__new__") and callee.cls is not None:
                    continue
                if isinstance(callee.node, ast.Lambda):
                    continue
                out |= self.ann_types(callee.module, callee.node.returns)
            # constructor call
            for t in self._callable_types(f, e.func):
                if t.startswith("type:"):
                    out.add(t[5:])
            if not out:
                d = dotted(e.func)
                if d:
                    q = self.prog.resolve_name(m, d)
                    if q is None or (q not in self.prog.functions and q not in self.prog.classes):
                        out.add("ext:" + (q or d) + "()")
            return out
        if isinstance(e, ast.Subscript):
            return set()
        return set()

    def _owner_class(self, f: FuncInfo) -> ClassInfo:
        assert f.cls is not None
        return f.cls

    def _callable_types(self, f: FuncInfo, fe: ast.AST) -> set[str]:
        if isinstance(fe, ast.Name):
            q = self.prog.resolve_name(f.module, fe.id)
            if q in self.prog.classes:
                return {"type:" + q}
            return {t for t in self._name_in_func(f, fe.id) if t.startswith("type:")}
        if isinstance(fe, ast.Attribute):
            d = dotted(fe)
            if d:
                q = self.prog.resolve_name(f.module, d)
                if q in self.prog.classes:
                    return {"type:" + q}
            return {t for t in self.type_of(f, fe) if t.startswith("type:")}
        return set()

    def _name_in_func(self, f: FuncInfo, name: str) -> set[str]:
        key = (id(f.node), name)
        if key in self._local_cache:
            return set(self._local_cache[key])
        self._local_cache[key] = frozenset()
        out = self._name_in_func_uncached(f, name)
        self._local_cache[key] = frozenset(out)
        return out

    def _name_in_func_uncached(self, f: FuncInfo, name: str) -> set[str]:
        m = f.module
        params = f.params()
        if params and f.cls is not None and f.parent is None and name == params[0].arg:
            decos = f.decorators
            if "staticmethod" not in decos:
                if "classmethod" in decos or f.name == "__new__":
                    return {"type:" + f.cls.qualname}
                return {f.cls.qualname}
        for p in params:
            if p.arg == name:
                return self.ann_types(m, p.annotation)
        out: set[str] = set()
        found = False
        body = f.node.body if isinstance(f.node.body, list) else [f.node.body]
        for st in _walk_no_defs(body):
            if isinstance(st, ast.AnnAssign) and isinstance(st.target, ast.Name) and st.target.id == name:
                found = True
                out |= self.ann_types(m, st.annotation)
            elif isinstance(st, ast.Assign):
                for t in st.targets:
                    if isinstance(t, ast.Name) and t.id == name:
                        found = True
                        out |= self.type_of(f, st.value)
            elif isinstance(st, ast.NamedExpr) and isinstance(st.target, ast.Name) and st.target.id == name:
                found = True
                out |= self.type_of(f, st.value)
            elif isinstance(st, (ast.With, ast.AsyncWith)):
                for it in st.items:
                    if isinstance(it.optional_vars, ast.Name) and it.optional_vars.id == name:
                        found = True
                        out |= self.type_of(f, it.context_expr)
        if found:
            return out
        if f.parent is not None:
            return self._name_in_func(f.parent, name)
        q = self.prog.resolve_name(m, name)
        if q in self.prog.classes:
            return {"type:" + q}
        return set()

    def attr_types(self, t: str, attr: str, ctx: FuncInfo | None = None) -> set[str]:
        if t.startswith("super:"):
            return set()
        is_type = t.startswith("type:")
        q = t[5:] if is_type else t
        if q not in self.prog.classes:
            return set()
        key = (q, attr)
        if key in self._attr_cache:
            return set(self._attr_cache[key])
        self._attr_cache[key] = frozenset()
        out: set[str] = set()
        for impl in self.implementations(q):
            for c in self.prog.mro(impl.qualname):
                r = self._attr_in_class(c, attr)
                if r is not None:
                    out |= r
                    break
        self._attr_cache[key] = frozenset(out)
        return out

    def _attr_in_class(self, c: ClassInfo, attr: str) -> set[str] | None:
        if attr in c.annotations:
            r = self.ann_types(c.module, c.annotations[attr])
            if r:
                return r
        if attr in c.methods:
            fn = c.methods[attr]
            if any(d in ("property", "cached_property") for d in fn.decorators):
                return self.ann_types(c.module, fn.node.returns)
            return set()
        if attr in c.attrs:
            v = c.attrs[attr]
            d = dotted(v)
            if d:
                qv = self.prog.resolve_name(c.module, d)
                if qv in self.prog.classes:
                    return {"type:" + qv}
        # self.attr = ... in any method
        out: set[str] = set()
        found = False
        for fn in c.methods.values():
            params = fn.params()
            if not params:
                continue
            selfname = params[0].arg
            for st in _walk_no_defs(fn.node.body):
                tgt = None
                val = None
                ann = None
                if isinstance(st, ast.Assign) and len(st.targets) == 1:
                    tgt, val = st.targets[0], st.value
                elif isinstance(st, ast.AnnAssign):
                    tgt, val, ann = st.target, st.value, st.annotation
                if (
                    isinstance(tgt, ast.Attribute)
                    and isinstance(tgt.value, ast.Name)
                    and tgt.value.id == selfname
                    and (tgt.attr == attr or c.mangle(tgt.attr) == attr)
                ):
                    found = True
                    if ann is not None:
                        out |= self.ann_types(c.module, ann)
                    elif val is not None:
                        out |= self.type_of(fn, val)
        return out if found else None

    # ------------------------------------------------------------------ callees
    def callees(self, f: FuncInfo, call: ast.Call, record: bool = True) -> list[FuncInfo]:
        """repid functions a call may invoke (class-hierarchy analysis); [] for externals/unknown."""
        fe = call.func
        out: list[FuncInfo] = []
        if isinstance(fe, ast.Name):
            # nested function / closure
            g: FuncInfo | None = f
            while g is not None:
                hits = [v for k, v in g.nested.items() if k.split("#")[0] == fe.id]
                if hits:
                    return hits
                g = g.parent
            # local variable bound to a dispatch dict entry or a bound method
            loc = self._local_callable(f, fe.id)
            if loc:
                return loc
            q = self.prog.resolve_name(f.module, fe.id)
            if q in self.prog.functions:
                return [self.prog.functions[q]]
            if q in self.prog.classes:
                return self._ctor(q)
            return []
        if isinstance(fe, ast.Attribute):
            attr = fe.attr
            recv = fe.value
            # module function: utils.wait_timestamp
            d = dotted(fe)
            if d:
                q = self.prog.resolve_name(f.module, d)
                if q in self.prog.functions:
                    return [self.prog.functions[q]]
                if q in self.prog.classes:
                    return self._ctor(q)
            if attr.startswith("__") and not attr.endswith("__"):
                # private name: mangled to the enclosing class, only that class can define it
                if f.cls is not None and attr in f.cls.methods:
                    return [f.cls.methods[attr]]
                return []
            for t in sorted(self.type_of(f, recv)):
                if t.startswith("super:"):
                    owner = t[6:]
                    mro = self.prog.mro(owner)[1:]
                    for c in mro:
                        if attr in c.methods:
                            out.append(c.methods[attr])
                            break
                    continue
                is_type = t.startswith("type:")
                q = t[5:] if is_type else t
                if q not in self.prog.classes:
                    continue
                for impl in self.implementations(q):
                    fn = self.prog.find_method(impl.qualname, attr)
                    if fn is not None and fn not in out:
                        out.append(fn)
                    elif fn is None:
                        # attribute holding a class object: self.CONSUMER_CLASS(...)
                        for at in self.attr_types(impl.qualname, attr):
                            if at.startswith("type:"):
                                for c2 in self._ctor(at[5:]):
                                    if c2 not in out:
                                        out.append(c2)
            return out
        return []

    def _ctor(self, q: str) -> list[FuncInfo]:
        out = []
        for name in ("__new__", "__init__", "__post_init__"):
            fn = self.prog.find_method(q, name)
            if fn is not None:
                out.append(fn)
        return out

    def _local_callable(self, f: FuncInfo, name: str) -> list[FuncInfo]:
        """x = self.<dispatch dict>[k]  with  self.<dispatch dict> = {K: self.m1, ...}  =>  [m1, ...]"""
        out: list[FuncInfo] = []
        body = f.node.body if isinstance(f.node.body, list) else [f.node.body]
        for st in _walk_no_defs(body):
            if not (isinstance(st, ast.Assign) and len(st.targets) == 1):
                continue
            t = st.targets[0]
            if not (isinstance(t, ast.Name) and t.id == name):
                continue
            v = st.value
            if isinstance(v, ast.Subscript) and isinstance(v.value, ast.Attribute) and f.cls is not None:
                out += self.dict_attr_methods(f.cls, v.value.attr)
            elif isinstance(v, ast.Attribute) and isinstance(v.value, ast.Name) and v.value.id == "self" and f.cls:
                fn = self.prog.find_method(f.cls.qualname, v.attr)
                if fn is not None:
                    out.append(fn)
            elif isinstance(v, ast.Call) and isinstance(v.func, ast.Attribute) and isinstance(v.func.value, ast.Name) and v.func.value.id == "self" and f.cls:
                # x = self.<selector>(...) where the selector returns bound methods of the same object (`return self.__consume_normal` ...)
                sel = self.prog.find_method(f.cls.qualname, v.func.attr)
                if sel is not None and not isinstance(sel.node, ast.Lambda):
                    for r in _walk_no_defs(sel.node.body):
                        if isinstance(r, ast.Return) and isinstance(r.value, ast.Attribute) and isinstance(r.value.value, ast.Name) and r.value.value.id == "self":
                            m = self.prog.find_method(f.cls.qualname, r.value.attr)
                            if m is not None and m not in out:
                                out.append(m)
        return out

    def dict_attr_methods(self, c: ClassInfo, attr: str) -> list[FuncInfo]:
        out: list[FuncInfo] = []
        for fn in c.methods.values():
            for st in _walk_no_defs(fn.node.body):
                if isinstance(st, ast.Assign) and len(st.targets) == 1 and isinstance(st.targets[0], ast.Attribute):
                    tg = st.targets[0]
                    if tg.attr == attr and isinstance(st.value, ast.Dict):
                        for v in st.value.values:
                            if isinstance(v, ast.Attribute) and isinstance(v.value, ast.Name) and v.value.id == "self":
                                m = self.prog.find_method(c.qualname, v.attr)
                                if m is not None:
                                    out.append(m)
        return out


def _walk_no_defs(body: Iterable[ast.AST]):
    todo = list(body)
    while todo:
        n = todo.pop(0)
        yield n
        for ch in ast.iter_child_nodes(n):
            if isinstance(ch, (ast.FunctionDef, ast.AsyncFunctionDef, ast.ClassDef, ast.Lambda)):
                continue
            todo.append(ch)
