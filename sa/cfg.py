"""Statement/event level control-flow graphs with exception and cancellation edges.

Nodes are *events* in evaluation order: calls, awaits, stores, branch tests, returns, raises...
Edge kinds:
  n       sequential
  T / F   branch outcome of a `test` / `iter` node
  exc     the event raised some Exception subclass (implicit)
  cancel  asyncio.CancelledError delivered at a suspension point (await / async for / async with)
  raise   explicit `raise` statement (class known when it is `raise Name(...)`)
Exits: exit (normal return), xexit (an Exception leaves the function), cexit (cancellation leaves it),
bexit (some other BaseException - e.g. _NoAction - leaves it).
"""
from __future__ import annotations

import ast
from dataclasses import dataclass, field

from .model import AnalysisError, FuncInfo, dotted, unparse

# ----------------------------------------------------------------------------- exception hierarchy
_EXC_SUB = {
    # name -> direct base (builtin knowledge; repid classes are added from the program model)
    "Exception": "BaseException",
    "CancelledError": "BaseException",
    "KeyboardInterrupt": "BaseException",
    "SystemExit": "BaseException",
    "GeneratorExit": "BaseException",
    "StopAsyncIteration": "Exception",
    "StopIteration": "Exception",
    "ValueError": "Exception",
    "TypeError": "Exception",
    "KeyError": "LookupError",
    "IndexError": "LookupError",
    "LookupError": "Exception",
    "RuntimeError": "Exception",
    "NotImplementedError": "RuntimeError",
    "ConnectionError": "OSError",
    "OSError": "Exception",
    "ImportError": "Exception",
    "ModuleNotFoundError": "ImportError",
    "AttributeError": "Exception",
    "QueueEmpty": "Exception",
    "QueueFull": "Exception",
    "TimeoutError": "Exception",
    "AssertionError": "Exception",
    "ValidationError": "ValueError",
    "JSONDecodeError": "ValueError",
}


def register_exception_class(name: str, base: str) -> None:
    _EXC_SUB.setdefault(name, base)


def exc_ancestors(name: str) -> list[str]:
    name = name.split(".")[-1]
    out = [name]
    seen = {name}
    while name in _EXC_SUB:
        name = _EXC_SUB[name]
        if name in seen:
            break
        seen.add(name)
        out.append(name)
    return out


def handler_classes(h: ast.ExceptHandler) -> list[str] | None:
    """None for a bare except."""
    if h.type is None:
        return None
    if isinstance(h.type, ast.Tuple):
        return [(dotted(e) or unparse(e)).split(".")[-1] for e in h.type.elts]
    return [(dotted(h.type) or unparse(h.type)).split(".")[-1]]


def _match_one(hc: str, flavour: str, exc_class: str | None) -> str:
    if flavour == "cancel":
        return "yes" if hc in ("CancelledError", "BaseException") else "no"
    if flavour == "base":  # a known BaseException subclass that is not an Exception (e.g. _NoAction)
        return "yes" if exc_class is not None and hc in exc_ancestors(exc_class) else "no"
    # flavour "exc": some Exception subclass
    if hc in ("Exception", "BaseException"):
        return "yes"
    hanc = exc_ancestors(hc)
    if hc in _EXC_SUB and "Exception" not in hanc:
        return "no"  # CancelledError, _NoAction, KeyboardInterrupt ... never match an Exception
    if exc_class is not None:
        anc = exc_ancestors(exc_class)
        if hc in anc:
            return "yes"
        if anc[-1] == "BaseException":
            return "no"  # both classes known, unrelated (explicit `raise ValueError(...)` vs `except KeyError`)
        return "maybe"  # a class we know nothing about
    return "maybe"


def handler_match(h: ast.ExceptHandler, flavour: str, exc_class: str | None) -> str:
    """'yes' / 'maybe' / 'no' : does handler h catch an exception of this flavour?

    flavour 'exc'    : some Exception subclass (class unknown unless exc_class is given)
    flavour 'cancel' : asyncio.CancelledError
    flavour 'base'   : a known BaseException subclass that is not an Exception (exc_class given)
    """
    hcs = handler_classes(h)
    if hcs is None:
        return "yes"
    res = "no"
    for hc in hcs:
        r = _match_one(hc, flavour, exc_class)
        if r == "yes":
            return "yes"
        if r == "maybe":
            res = "maybe"
    return res


# ----------------------------------------------------------------------------- nodes
@dataclass
class Node:
    id: int
    kind: str  # entry exit xexit cexit bexit call await store test iter return raise stmt def yield join with_enter with_exit
    ast: ast.AST | None
    stmt: ast.stmt | None
    func: FuncInfo
    label: str = ""
    callee: str | None = None  # dotted callee text of a call
    awaited: bool = False  # call node: direct operand of an await
    in_comp: bool = False  # inside a comprehension (0..n executions)
    target: str | None = None  # store node: dotted target text
    meta: dict = field(default_factory=dict)
    stack: tuple = ()  # inline stack (call-site labels) for inlined graphs

    @property
    def lineno(self) -> int | None:
        return getattr(self.ast, "lineno", None) or getattr(self.stmt, "lineno", None)

    def where(self) -> str:
        return f"{self.func.relpath}:{self.lineno} in {self.func.short()}"

    def __hash__(self) -> int:
        return self.id

    def __repr__(self) -> str:
        return f"<{self.id}:{self.kind}:{self.label[:50]}>"


SUSPEND_KINDS = ("await",)


class CFG:
    def __init__(self, func: FuncInfo) -> None:
        self.func = func
        self.nodes: list[Node] = []
        self.succ: dict[int, list[tuple[int, str]]] = {}
        self.pred: dict[int, list[tuple[int, str]]] = {}
        self.entry = self.new("entry", None, None, "entry")
        self.exit = self.new("exit", None, None, "exit")
        self.xexit = self.new("xexit", None, None, "exception-exit")
        self.cexit = self.new("cexit", None, None, "cancel-exit")
        self.bexit = self.new("bexit", None, None, "baseexception-exit")

    def new(self, kind, node, stmt, label="", **kw) -> Node:
        n = Node(len(self.nodes), kind, node, stmt, self.func, label or unparse(node), **kw)
        self.nodes.append(n)
        self.succ[n.id] = []
        self.pred[n.id] = []
        return n

    def edge(self, a: Node | int, b: Node | int, kind: str = "n") -> None:
        ai = a if isinstance(a, int) else a.id
        bi = b if isinstance(b, int) else b.id
        if (bi, kind) not in self.succ[ai]:
            self.succ[ai].append((bi, kind))
            self.pred[bi].append((ai, kind))

    def exits(self) -> list[Node]:
        return [self.exit, self.xexit, self.cexit, self.bexit]

    def by_kind(self, *kinds: str) -> list[Node]:
        return [n for n in self.nodes if n.kind in kinds]

    def calls(self, pred=None) -> list[Node]:
        return [n for n in self.nodes if n.kind == "call" and (pred is None or pred(n))]

    def reachable_nodes(self, kinds: tuple[str, ...] | None = None) -> set[int]:
        seen = {self.entry.id}
        todo = [self.entry.id]
        while todo:
            x = todo.pop()
            for y, k in self.succ[x]:
                if kinds is not None and k not in kinds:
                    continue
                if y not in seen:
                    seen.add(y)
                    todo.append(y)
        return seen

    def dump(self) -> str:
        out = []
        for n in self.nodes:
            out.append(f"{n.id:3d} {n.kind:9s} {n.label[:70]!r:72s} -> {self.succ[n.id]}")
        return "\n".join(out)


# ----------------------------------------------------------------------------- builder
@dataclass
class _Frame:
    kind: str  # try | handler | loop | with
    stmt: ast.AST
    handlers: list[ast.ExceptHandler] = field(default_factory=list)
    finalbody: list[ast.stmt] = field(default_factory=list)
    after: Node | None = None  # join after the try / loop
    cont: Node | None = None  # loop: continue target
    reraise: tuple | None = None  # handler frame: (flavour, exc_class) of the exception being handled
    async_with: bool = False


NORMAL_OUT = "n"


# calls that do not raise (clock reads, type tests): no exception edge is drawn for them
TOTAL_CALLS = {"time.monotonic", "time.time", "time.perf_counter", "time.time_ns", "time.monotonic_ns", "time.perf_counter_ns", "isinstance", "id", "callable"}


class CFGBuilder:
    """Builds the CFG of one function."""

    def __init__(self, func: FuncInfo, raise_on_calls: bool = True) -> None:
        self.func = func
        self.g = CFG(func)
        self.raise_on_calls = raise_on_calls
        self._handler_cache: dict[tuple, Node] = {}
        self._depth = 0

    # dangling = list of (node, edgekind)
    def build(self) -> CFG:
        node = self.func.node
        if isinstance(node, ast.Lambda):
            d = [(self.g.entry, "n")]
            d = self.expr_events(node.body, None, d, [])
            r = self.g.new("return", node.body, None, "return <lambda body>")
            self.connect(d, r)
            self.g.edge(r, self.g.exit)
            return self.g
        d = self.stmts(node.body, [(self.g.entry, "n")], [])
        self.connect(d, self.g.exit)
        return self.g

    def connect(self, dangling, node: Node) -> None:
        for src, kind in dangling:
            self.g.edge(src, node, kind)

    # ------------------------------------------------------------- statements
    def stmts(self, body: list[ast.stmt], d, frames) -> list:
        for st in body:
            if not d:
                break  # unreachable code
            d = self.stmt(st, d, frames)
        return d

    def stmt(self, st: ast.stmt, d, frames) -> list:
        g = self.g
        if isinstance(st, (ast.FunctionDef, ast.AsyncFunctionDef, ast.ClassDef)):
            n = g.new("def", st, st, f"def {st.name}")
            self.connect(d, n)
            return [(n, "n")]
        if isinstance(st, (ast.Import, ast.ImportFrom, ast.Pass, ast.Global, ast.Nonlocal)):
            n = g.new("stmt", st, st)
            self.connect(d, n)
            return [(n, "n")]
        if isinstance(st, ast.Expr):
            d2 = self.expr_events(st.value, st, d, frames)
            if d2 is d:  # no events
                n = g.new("stmt", st, st)
                self.connect(d, n)
                return [(n, "n")]
            return d2
        if isinstance(st, (ast.Assign, ast.AnnAssign)) and isinstance(st.value, ast.IfExp):
            # `x = a if c else b` is lowered to a branch: the graph is the same as for `if c: x = a` / `else: x = b`
            targets = st.targets if isinstance(st, ast.Assign) else [st.target]

            def arm(val, dd):
                if isinstance(val, ast.IfExp):
                    dd = self.expr_events(val.test, st, dd, frames)
                    tn = g.new("test", val.test, st)
                    self.connect(dd, tn)
                    return arm(val.body, [(tn, "T")]) + arm(val.orelse, [(tn, "F")])
                dd = self.expr_events(val, st, dd, frames)
                for t in targets:
                    dd = self.store_events(t, st, dd, frames, value=val)
                return dd

            return arm(st.value, d)
        if isinstance(st, ast.Assign):
            d = self.expr_events(st.value, st, d, frames)
            for t in st.targets:
                d = self.store_events(t, st, d, frames, value=st.value)
            return d
        if isinstance(st, ast.AnnAssign):
            if st.value is not None:
                d = self.expr_events(st.value, st, d, frames)
                d = self.store_events(st.target, st, d, frames, value=st.value)
                return d
            n = g.new("stmt", st, st)
            self.connect(d, n)
            return [(n, "n")]
        if isinstance(st, ast.AugAssign):
            d = self.expr_events(st.value, st, d, frames)
            d = self.store_events(st.target, st, d, frames, value=st)
            return d
        if isinstance(st, ast.Delete):
            n = g.new("store", st, st, unparse(st), target="del " + ",".join(unparse(t) for t in st.targets))
            self.connect(d, n)
            return [(n, "n")]
        if isinstance(st, ast.Return) and isinstance(st.value, ast.IfExp):
            # `return a if c else b` is lowered to a branch with one return per arm
            def rarm(val, dd):
                if isinstance(val, ast.IfExp):
                    dd = self.expr_events(val.test, st, dd, frames)
                    tn = g.new("test", val.test, st)
                    self.connect(dd, tn)
                    rarm(val.body, [(tn, "T")])
                    rarm(val.orelse, [(tn, "F")])
                    return
                dd = self.expr_events(val, st, dd, frames)
                rs = ast.copy_location(ast.Return(value=val), st)
                n_ = g.new("return", rs, st)
                self.connect(dd, n_)
                self.leave(n_, frames, "return")

            rarm(st.value, d)
            return []
        if isinstance(st, ast.Return):
            if st.value is not None:
                d = self.expr_events(st.value, st, d, frames)
            n = g.new("return", st, st)
            self.connect(d, n)
            self.leave(n, frames, "return")
            return []
        if isinstance(st, ast.Raise):
            if st.exc is not None:
                d = self.expr_events(st.exc, st, d, frames)
            n = g.new("raise", st, st)
            self.connect(d, n)
            self.route_raise_stmt(n, st, frames)
            return []
        if isinstance(st, ast.Assert):
            d = self.expr_events(st.test, st, d, frames)
            t = g.new("test", st.test, st)
            t.meta["assert"] = True
            self.connect(d, t)
            r = g.new("raise", st, st, "raise AssertionError")
            g.edge(t, r, "F")
            self.route_exception(r, "raise", "exc", "AssertionError", frames)
            return [(t, "T")]
        if isinstance(st, ast.If):
            d = self.expr_events(st.test, st, d, frames)
            t = g.new("test", st.test, st)
            self.connect(d, t)
            d1 = self.stmts(st.body, [(t, "T")], frames)
            d2 = self.stmts(st.orelse, [(t, "F")], frames) if st.orelse else [(t, "F")]
            return d1 + d2
        if isinstance(st, ast.While):
            head = g.new("join", None, st, "while-head")
            self.connect(d, head)
            dd = self.expr_events(st.test, st, [(head, "n")], frames)
            t = g.new("test", st.test, st)
            self.connect(dd, t)
            after = g.new("join", None, st, "while-after")
            fr = _Frame("loop", st, after=after, cont=head)
            body_d = self.stmts(st.body, [(t, "T")], frames + [fr])
            self.connect(body_d, head)
            const_true = isinstance(st.test, ast.Constant) and bool(st.test.value) is True
            if not const_true:
                else_d = self.stmts(st.orelse, [(t, "F")], frames) if st.orelse else [(t, "F")]
                self.connect(else_d, after)
            if not g.pred[after.id]:
                return []
            return [(after, "n")]
        if isinstance(st, (ast.For, ast.AsyncFor)):
            d = self.expr_events(st.iter, st, d, frames)
            it = g.new("iter", st, st, f"for {unparse(st.target)} in {unparse(st.iter)}")
            it.meta["async"] = isinstance(st, ast.AsyncFor)
            self.connect(d, it)
            if isinstance(st, ast.AsyncFor):
                self.route_exception(it, "cancel", "cancel", None, frames)
            if self.raise_on_calls:
                self.route_exception(it, "exc", "exc", None, frames)
            after = g.new("join", None, st, "for-after")
            fr = _Frame("loop", st, after=after, cont=it)
            dd = self.store_events(st.target, st, [(it, "T")], frames + [fr], value=None)
            body_d = self.stmts(st.body, dd, frames + [fr])
            self.connect(body_d, it)
            else_d = self.stmts(st.orelse, [(it, "F")], frames) if st.orelse else [(it, "F")]
            self.connect(else_d, after)
            return [(after, "n")]
        if isinstance(st, ast.Break):
            n = g.new("stmt", st, st, "break")
            self.connect(d, n)
            self.leave(n, frames, "break")
            return []
        if isinstance(st, ast.Continue):
            n = g.new("stmt", st, st, "continue")
            self.connect(d, n)
            self.leave(n, frames, "continue")
            return []
        if isinstance(st, (ast.With, ast.AsyncWith)):
            is_async = isinstance(st, ast.AsyncWith)
            for item in st.items:
                d = self.expr_events(item.context_expr, st, d, frames)
                en = g.new("await" if is_async else "with_enter", item.context_expr, st,
                           f"{'async ' if is_async else ''}with-enter {unparse(item.context_expr)}")
                en.meta["with_enter"] = True
                self.connect(d, en)
                if is_async:
                    self.route_exception(en, "cancel", "cancel", None, frames)
                if self.raise_on_calls:
                    self.route_exception(en, "exc", "exc", None, frames)
                d = [(en, "n")]
                if item.optional_vars is not None:
                    d = self.store_events(item.optional_vars, st, d, frames, value=item.context_expr)
            fr = _Frame("with", st, async_with=is_async)
            d = self.stmts(st.body, d, frames + [fr])
            if d:
                ex = g.new("await" if is_async else "with_exit", None, st,
                           f"{'async ' if is_async else ''}with-exit {unparse(st.items[0].context_expr)}")
                ex.meta["with_exit"] = True
                self.connect(d, ex)
                if is_async:
                    self.route_exception(ex, "cancel", "cancel", None, frames)
                d = [(ex, "n")]
            return d
        if isinstance(st, ast.Try):
            after = g.new("join", None, st, "try-after")
            fr = _Frame("try", st, handlers=list(st.handlers), finalbody=list(st.finalbody), after=after)
            body_d = self.stmts(st.body, d, frames + [fr])
            if st.orelse:
                # exceptions in else are not handled by the handlers, but finally still runs
                fr_else = _Frame("handler", st, finalbody=list(st.finalbody), after=after)
                body_d = self.stmts(st.orelse, body_d, frames + [fr_else])
            if st.finalbody and body_d:
                body_d = self.stmts(st.finalbody, body_d, frames)
            self.connect(body_d, after)
            if not g.pred[after.id]:
                return []
            return [(after, "n")]
        if hasattr(ast, "Match") and isinstance(st, ast.Match):
            raise AnalysisError(f"{self.func.loc(st)}: unsupported statement kind 'match'")
        if hasattr(ast, "TryStar") and isinstance(st, ast.TryStar):
            raise AnalysisError(f"{self.func.loc(st)}: unsupported statement kind 'try*'")
        raise AnalysisError(f"{self.func.loc(st)}: unsupported statement kind {type(st).__name__}")

    # ------------------------------------------------------------- leaving blocks
    def leave(self, n: Node, frames, how: str) -> None:
        """return / break / continue: run enclosing finally blocks, then jump."""
        d = [(n, "n")]
        for i in range(len(frames) - 1, -1, -1):
            fr = frames[i]
            if fr.kind in ("try", "handler") and fr.finalbody:
                d = self.stmts(fr.finalbody, d, frames[:i])
                if not d:
                    return
            if fr.kind == "loop" and how in ("break", "continue"):
                self.connect(d, fr.after if how == "break" else fr.cont)
                return
            if fr.kind == "with" and fr.async_with:
                ex = self.g.new("await", None, fr.stmt, "async with-exit (leave)")
                ex.meta["with_exit"] = True
                self.connect(d, ex)
                self.route_exception(ex, "cancel", "cancel", None, frames[:i])
                d = [(ex, "n")]
        if how != "return":
            raise AnalysisError(f"{self.func.loc(n.ast)}: {how} outside loop")
        self.connect(d, self.g.exit)

    def route_raise_stmt(self, n: Node, st: ast.Raise, frames) -> None:
        if st.exc is None:
            # re-raise: find the innermost handler frame
            for fr in reversed(frames):
                if fr.kind == "handler" and fr.reraise is not None:
                    flavour, cls = fr.reraise
                    self.route_exception(n, "raise", flavour, cls, frames)
                    return
            self.route_exception(n, "raise", "exc", None, frames)
            return
        exc = st.exc
        cls = None
        if isinstance(exc, ast.Call):
            cls = dotted(exc.func)
            # `raise self.__builder(...)`: a private method of the same class whose returns all construct one exception class
            fn = exc.func
            if isinstance(fn, ast.Attribute) and isinstance(fn.value, ast.Name) and fn.value.id in ("self", "cls") and self.func.cls is not None:
                m = self.func.cls.methods.get(fn.attr)
                if m is not None and not isinstance(m.node, ast.Lambda):
                    built = {dotted(r.value.func) for r in ast.walk(m.node) if isinstance(r, ast.Return) and isinstance(r.value, ast.Call)}
                    plain = [r for r in ast.walk(m.node) if isinstance(r, ast.Return) and not isinstance(r.value, ast.Call)]
                    if len(built) == 1 and not plain and None not in built:
                        cls = next(iter(built))
        elif isinstance(exc, (ast.Name, ast.Attribute)):
            cls = dotted(exc)
            # `raise exc` where exc is a variable: unknown class
            if cls is not None and cls.split(".")[-1] not in _EXC_SUB:
                cls = None
        if cls is not None:
            cls = cls.split(".")[-1]
            anc = exc_ancestors(cls)
            if cls == "CancelledError":
                self.route_exception(n, "raise", "cancel", None, frames)
                return
            if anc[-1] == "BaseException" and "Exception" not in anc:
                self.route_exception(n, "raise", "base", cls, frames)
                return
        self.route_exception(n, "raise", "exc", cls, frames)

    def route_exception(self, src: Node, ekind: str, flavour: str, exc_class: str | None, frames) -> None:
        g = self.g
        d = [(src, ekind)]
        for i in range(len(frames) - 1, -1, -1):
            fr = frames[i]
            outer = frames[:i]
            if fr.kind == "try":
                for h in fr.handlers:
                    m = handler_match(h, flavour, exc_class)
                    if m == "no":
                        continue
                    entry = self.handler_entry(fr, h, flavour, exc_class, outer)
                    self.connect(d, entry)
                    if m == "yes":
                        return
            if fr.kind in ("try", "handler") and fr.finalbody:
                self._depth += 1
                if self._depth > 40:
                    raise AnalysisError(f"{self.func.loc()}: finally nesting too deep")
                d = self.stmts(fr.finalbody, d, outer)
                self._depth -= 1
                if not d:
                    return
        target = {"exc": g.xexit, "cancel": g.cexit, "base": g.bexit}[flavour]
        self.connect(d, target)

    def handler_entry(self, fr: _Frame, h: ast.ExceptHandler, flavour: str, exc_class, outer) -> Node:
        key = (id(fr.stmt), id(h), flavour, exc_class if flavour == "base" else None, tuple(id(f.stmt) for f in outer))
        if key in self._handler_cache:
            return self._handler_cache[key]
        g = self.g
        entry = g.new("join", h, h, f"except {unparse(h.type) if h.type else ''} [{flavour}]")
        entry.meta["handler"] = True
        entry.meta["flavour"] = flavour
        self._handler_cache[key] = entry
        hfr = _Frame("handler", fr.stmt, finalbody=fr.finalbody, after=fr.after, reraise=(flavour, exc_class))
        d = [(entry, "n")]
        if h.name:
            s = g.new("store", h, h, f"{h.name} = <exception>", target=h.name)
            self.connect(d, s)
            d = [(s, "n")]
        d = self.stmts(h.body, d, outer + [hfr])
        if fr.finalbody and d:
            d = self.stmts(fr.finalbody, d, outer)
        assert fr.after is not None
        self.connect(d, fr.after)
        return entry

    # ------------------------------------------------------------- expressions
    def store_events(self, target: ast.expr, st, d, frames, value) -> list:
        g = self.g
        if isinstance(target, (ast.Tuple, ast.List)):
            for e in target.elts:
                d = self.store_events(e, st, d, frames, value)
            return d
        if isinstance(target, ast.Starred):
            return self.store_events(target.value, st, d, frames, value)
        if isinstance(target, ast.Subscript):
            d = self.expr_events(target.value, st, d, frames)
            d = self.expr_events(target.slice, st, d, frames)
        elif isinstance(target, ast.Attribute):
            d = self.expr_events(target.value, st, d, frames)
        n = g.new("store", target, st, f"{unparse(target)} = ...", target=dotted(target) or unparse(target))
        n.meta["value"] = value
        self.connect(d, n)
        return [(n, "n")]

    def expr_events(self, e: ast.AST | None, st, d, frames, in_comp: bool = False) -> list:
        """Linearise the events of expression e in evaluation order; returns the new dangling list.
        Returns d itself (same object) when there were no events."""
        if e is None:
            return d
        g = self.g
        if isinstance(e, ast.Await):
            inner = e.value
            d = self.expr_events(inner, st, d, frames, in_comp)
            n = g.new("await", e, st, in_comp=in_comp)
            if isinstance(inner, ast.Call):
                n.callee = dotted(inner.func)
                n.meta["call"] = inner
            self.connect(d, n)
            self.route_exception(n, "cancel", "cancel", None, frames)
            if self.raise_on_calls:
                self.route_exception(n, "exc", "exc", None, frames)
            return [(n, "n")]
        if isinstance(e, ast.Call):
            d = self.expr_events(e.func, st, d, frames, in_comp)
            for a in e.args:
                d = self.expr_events(a, st, d, frames, in_comp)
            for k in e.keywords:
                d = self.expr_events(k.value, st, d, frames, in_comp)
            n = g.new("call", e, st, in_comp=in_comp, callee=dotted(e.func))
            self.connect(d, n)
            if self.raise_on_calls and (dotted(e.func) or "") not in TOTAL_CALLS:
                self.route_exception(n, "exc", "exc", None, frames)
            return [(n, "n")]
        if isinstance(e, ast.NamedExpr):
            d = self.expr_events(e.value, st, d, frames, in_comp)
            n = g.new("store", e.target, st, f"{unparse(e.target)} := ...", target=dotted(e.target), in_comp=in_comp)
            n.meta["value"] = e.value
            self.connect(d, n)
            return [(n, "n")]
        if isinstance(e, ast.Lambda):
            n = g.new("def", e, st, "lambda")
            self.connect(d, n)
            return [(n, "n")]
        if isinstance(e, (ast.Yield, ast.YieldFrom)):
            d = self.expr_events(e.value, st, d, frames, in_comp)
            n = g.new("yield", e, st)
            self.connect(d, n)
            # a generator can be closed / cancelled at a yield
            self.route_exception(n, "cancel", "cancel", None, frames)
            self.route_exception(n, "exc", "exc", None, frames)
            return [(n, "n")]
        if isinstance(e, (ast.ListComp, ast.SetComp, ast.GeneratorExp, ast.DictComp)):
            for gen in e.generators:
                d = self.expr_events(gen.iter, st, d, frames, in_comp)
                if gen.is_async:
                    n = g.new("await", gen, st, "async-comprehension-step", in_comp=True)
                    self.connect(d, n)
                    self.route_exception(n, "cancel", "cancel", None, frames)
                    d = [(n, "n")]
                for cond in gen.ifs:
                    d = self.expr_events(cond, st, d, frames, True)
            if isinstance(e, ast.DictComp):
                d = self.expr_events(e.key, st, d, frames, True)
                d = self.expr_events(e.value, st, d, frames, True)
            else:
                d = self.expr_events(e.elt, st, d, frames, True)
            return d
        if isinstance(e, ast.Subscript):
            d = self.expr_events(e.value, st, d, frames, in_comp)
            d = self.expr_events(e.slice, st, d, frames, in_comp)
            return d
        if isinstance(e, ast.IfExp):
            d = self.expr_events(e.test, st, d, frames, in_comp)
            # both arms linearised (over-approximation: events of both arms appear on the path)
            d = self.expr_events(e.body, st, d, frames, in_comp)
            d = self.expr_events(e.orelse, st, d, frames, in_comp)
            return d
        # generic: children in field order (matches evaluation order for the node kinds that remain)
        for ch in ast.iter_child_nodes(e):
            if isinstance(ch, (ast.expr_context, ast.operator, ast.boolop, ast.unaryop, ast.cmpop)):
                continue
            if isinstance(ch, ast.keyword):
                d = self.expr_events(ch.value, st, d, frames, in_comp)
            elif isinstance(ch, ast.expr):
                d = self.expr_events(ch, st, d, frames, in_comp)
            elif isinstance(ch, ast.comprehension):
                d = self.expr_events(ch.iter, st, d, frames, in_comp)
        return d


_CFG_CACHE: dict[int, CFG] = {}


def build_cfg(func: FuncInfo) -> CFG:
    key = id(func.node)
    if key not in _CFG_CACHE:
        _CFG_CACHE[key] = CFGBuilder(func).build()
    return _CFG_CACHE[key]


_BUILTIN_EXC = dict(_EXC_SUB)


def register_program_exceptions(prog) -> int:
    """(Re)build the hierarchy: builtin knowledge + the exception classes defined in the analysed program."""
    _EXC_SUB.clear()
    _EXC_SUB.update(_BUILTIN_EXC)
    n = 0
    changed = True
    while changed:
        changed = False
        for c in prog.classes.values():
            if c.name in _EXC_SUB:
                continue
            for b in c.bases:
                bn = b.split(".")[-1]
                if bn in _EXC_SUB or bn == "BaseException":
                    _EXC_SUB[c.name] = bn
                    n += 1
                    changed = True
                    break
    return n
