"""Self-test corpus: must-fire mutants (M) and must-stay-silent refactors (R).

Entry: id, props (properties whose check is exercised), expect ('fire'|'silent'), optional rule prefix that must
be among the reported rules, edits = [(path, exact old text, new text)] - each old text must occur exactly once.
"""
from __future__ import annotations

CORPUS: list[dict] = []


def M(id_, props, edits, rule=None):
    CORPUS.append({"id": id_, "props": props if isinstance(props, list) else [props], "expect": "fire", "rule": rule, "edits": edits})


def R(id_, props, edits):
    CORPUS.append({"id": id_, "props": props if isinstance(props, list) else [props], "expect": "silent", "edits": edits})


MSG = "repid/message.py"
MDEP = "repid/dependencies/message_dependency.py"

# ----------------------------------------------------------------------------------------------- C16
M("c16-ack-guard-dropped", "C16", [(MSG, '''    async def ack(self) -> None:
        if self.__read_only:
            raise ValueError("Message is read only.")
''', '''    async def ack(self) -> None:
''')], "R-C16-TYPESTATE")
M("c16-reject-flag-not-set", "C16", [(MSG, '''        await self._connection.message_broker.reject(self._key)

        self.__read_only = True
''', '''        await self._connection.message_broker.reject(self._key)
''')], "R-C16-TYPESTATE")
M("c16-nack-flag-before-call", "C16", [(MSG, '''        await self._connection.message_broker.nack(self._key)

        self.__read_only = True
''', '''        self.__read_only = True

        await self._connection.message_broker.nack(self._key)
''')], "R-C16-TYPESTATE")
M("c16-nack-category-guard-dropped", "C16", [(MSG, '''        if self._category != MessageCategory.NORMAL:
            raise ValueError(f"Can not nack message with category {self._category}.")
''', '')], "R-C16-CATEGORY")
M("c16-retry-category-only-dead", "C16", [(MSG, '''        if self._category != MessageCategory.NORMAL:
            raise ValueError(f"Can not retry message with category {self._category}.")
''', '''        if self._category == MessageCategory.DEAD:
            raise ValueError(f"Can not retry message with category {self._category}.")
''')], "R-C16-CATEGORY")
M("c16-retry-budget-off-by-one", ["C16", "C04"], [(MSG, "if self.parameters.retries.already_tried >= self.parameters.retries.max_amount:",
                                         "if self.parameters.retries.already_tried > self.parameters.retries.max_amount:")])
M("c16-retry-budget-after-flag", "C16", [(MSG, '''        if self.parameters.retries.already_tried >= self.parameters.retries.max_amount:
            raise ValueError("Max retry limit reached.")
''', '''        if self.parameters.retries.already_tried >= self.parameters.retries.max_amount:
            self.__read_only = True
            raise ValueError("Max retry limit reached.")
''')], "R-C16-BUDGET")
M("c16-ack-category-guard-added", "C16", [(MSG, '''    async def ack(self) -> None:
        if self.__read_only:''', '''    async def ack(self) -> None:
        if self._category != MessageCategory.NORMAL:
            raise ValueError("no")
        if self.__read_only:''')], "R-C16-CATEGORY")
M("c16-get_messages-category-dropped", "C16", [("repid/queue.py", "                    _category=category,\n", "")], "R-C16-CATEGORY")
M("c16-eager-callbacks-skipped", ["C16"], [(MDEP, '''        await super().nack()
        await self.__execute_callbacks()
''', '''        await super().nack()
''')], "R-C16-EAGER")
M("c16-eager-callbacks-before-action", ["C16", "C13"], [(MDEP, '''        await super().reject()
        await self.__execute_callbacks()
''', '''        await self.__execute_callbacks()
        await super().reject()
''')], None)
M("c16-eager-wrong-super", "C16", [(MDEP, '''        await super().reschedule()
''', '''        await super().ack()
''')], "R-C16-EAGER")
M("c16-noaction-is-exception", ["C16", "C02"], [("repid/_utils/internal_exceptions.py", "class _NoAction(BaseException):", "class _NoAction(Exception):")])
M("c16-lazy-index-zero", ["C16", "C13"], [(MDEP, '''        self.__result_exception = None

        async def _inner() -> None:''', '''        self.__result_exception = None
        position = 0

        async def _inner() -> None:'''), (MDEP, '''                    ttl=self.parameters.result.ttl,  # type: ignore[union-attr]
                ),
            )

        self.__lazy_result_callback = partial(self._callbacks.insert, len(self._callbacks), _inner)

    def set_exception''', '''                    ttl=self.parameters.result.ttl,  # type: ignore[union-attr]
                ),
            )

        self.__lazy_result_callback = partial(self._callbacks.insert, position, _inner)

    def set_exception''')], "R-C16-CALLBACKS")
M("c16-callbacks-reversed", "C16", [(MDEP, "for callback in self._callbacks:  # execute in order", "for callback in reversed(self._callbacks):  # execute in order")], "R-C16-CALLBACKS")
M("c16-slot-fired-last", "C16", [(MDEP, '''        self.__lazy_result_callback()
        for callback in self._callbacks:  # execute in order
''', '''        for callback in self._callbacks:  # execute in order
'''), (MDEP, '''                    extra={"message_id": self._key.id_},
                )
''', '''                    extra={"message_id": self._key.id_},
                )
        self.__lazy_result_callback()
''')], "R-C16-CALLBACKS")
R("c16-r-guard-via-property", "C16", [(MSG, '''    async def ack(self) -> None:
        if self.__read_only:''', '''    async def ack(self) -> None:
        if self.read_only:''')])
# (was a must-stay-silent entry until two round-5 seeded changes showed the difference: MessageCategory is a str-Enum and a category given as the plain string "NORMAL" / "DELAYED"
#  is accepted by every other comparison and dispatch table of the clean tree; identity narrows that, equality is part of the decided behaviour - DESIGN 11.5)
M("c16-category-is-not", ["C16"], [(MSG, '''        if self._category != MessageCategory.NORMAL:
            raise ValueError(f"Can not nack message with category {self._category}.")
''', '''        if self._category is not MessageCategory.NORMAL:
            raise ValueError(f"Can not nack message with category {self._category}.")
''')], "R-C16-CATEGORY")
R("c16-r-budget-not-lt", ["C16", "C04"], [(MSG, "if self.parameters.retries.already_tried >= self.parameters.retries.max_amount:",
                                  "if not self.parameters.retries.already_tried < self.parameters.retries.max_amount:")])
R("c16-r-budget-locals", ["C16", "C04"], [(MSG, '''        if self.parameters.retries.already_tried >= self.parameters.retries.max_amount:
            raise ValueError("Max retry limit reached.")
''', '''        retries = self.parameters.retries
        if retries.max_amount <= retries.already_tried:
            raise ValueError("Max retry limit reached.")
''')])
R("c16-r-flag-guard-first", "C16", [(MSG, '''        if self._category != MessageCategory.NORMAL:
            raise ValueError(f"Can not nack message with category {self._category}.")

        if self.__read_only:
            raise ValueError("Message is read only.")
''', '''        if self.__read_only:
            raise ValueError("Message is read only.")

        if self._category != MessageCategory.NORMAL:
            raise ValueError(f"Can not nack message with category {self._category}.")
''')])
# (was a must-stay-silent entry until a round-5 seeded change: a callback registered by a running callback is appended to the live list and run by the clean tree's loop; a snapshot drops it - DESIGN 11.5)
M("c16-callbacks-snapshot", ["C16"], [(MDEP, "for callback in self._callbacks:  # execute in order", "for callback in list(self._callbacks):  # execute in order")], "R-C16-CALLBACKS")
M("c13-callback-failure-escapes", ["C13"], [(MDEP, "            except Exception:\n                # the message has been already", "            except ValueError:\n                # the message has been already")], "R-C13-EAGER-SAFE")

# ----------------------------------------------------------------------------------------------- C02 / C04 / C06 (processor ladder)
PROC = "repid/_processor.py"
RUN = "repid/_runner.py"
PAR = "repid/data/_parameters.py"
M("c02-race-fix-reverted", ["C02", "C03"], [(RUN, "if self.cancel_event.is_set() and not process_task.done():", "if self.cancel_event.is_set():")], "R-C02-RACE")
M("c02-ladder-reschedule-before-retry", ["C02", "C04", "C06"], [(PROC, '''        if not result.success and parameters.retries.already_tried < parameters.retries.max_amount:
            await self._conn.message_broker.requeue(
                key,
                payload,
                parameters._prepare_retry(actor.retry_policy(parameters.retries.already_tried + 1)),
            )
        # rescheduling (deferred)
        elif parameters.delay.defer_by is not None or parameters.delay.cron is not None:
            await self._conn.message_broker.requeue(
                key,
                payload,
                parameters._prepare_reschedule(),
            )
''', '''        if parameters.delay.defer_by is not None or parameters.delay.cron is not None:
            await self._conn.message_broker.requeue(
                key,
                payload,
                parameters._prepare_reschedule(),
            )
        elif not result.success and parameters.retries.already_tried < parameters.retries.max_amount:
            await self._conn.message_broker.requeue(
                key,
                payload,
                parameters._prepare_retry(actor.retry_policy(parameters.retries.already_tried + 1)),
            )
''')], "R-C02-LADDER")
M("c02-ladder-budget-le", ["C02", "C04"], [(PROC, "parameters.retries.already_tried < parameters.retries.max_amount:", "parameters.retries.already_tried <= parameters.retries.max_amount:")], None)
M("c02-ladder-cron-forgotten", ["C02", "C06"], [(PROC, "elif parameters.delay.defer_by is not None or parameters.delay.cron is not None:", "elif parameters.delay.defer_by is not None:")], None)
M("c02-ladder-and-instead-of-or", ["C02", "C06"], [(PROC, "elif parameters.delay.defer_by is not None or parameters.delay.cron is not None:", "elif parameters.delay.defer_by is not None and parameters.delay.cron is not None:")], None)
M("c02-ladder-ack-on-failure", ["C02"], [(PROC, '''        elif result.success:
            await self._conn.message_broker.ack(key)
        # nack
        else:
            await self._conn.message_broker.nack(key)''', '''        elif result.success:
            await self._conn.message_broker.ack(key)
        # nack
        else:
            await self._conn.message_broker.ack(key)''')], "R-C02-LADDER")
M("c02-requeue-raw-payload", ["C02"], [(PROC, "await self.report_to_broker(actor, key, payload, parameters, result)", "await self.report_to_broker(actor, key, raw_payload, parameters, result)")], None)
M("c02-policy-without-plus-one", ["C02", "C04"], [(PROC, "parameters._prepare_retry(actor.retry_policy(parameters.retries.already_tried + 1)),", "parameters._prepare_retry(actor.retry_policy(parameters.retries.already_tried)),")], None)
M("c02-eager-still-reports", ["C02", "C13"], [(PROC, '''        if result.reporting_done:  # actor has finished gracefully, but no action is required
            self._processed += 1
            return
''', '''        if result.reporting_done:  # actor has finished gracefully, but no action is required
            self._processed += 1
''')], "R-C02-ONCE")
M("c02-convert-inputs-outside-try", ["C02"], [(PROC, '''        try:
            unresolved_dependencies: dict[str, Coroutine] = {}
''', '''        args, kwargs = actor.converter.convert_inputs(payload)
        try:
            unresolved_dependencies: dict[str, Coroutine] = {}
'''), (PROC, '''            dependency_kwargs = dict(zip(unresolved_dependencies_names, resolved))

            args, kwargs = actor.converter.convert_inputs(payload)
''', '''            dependency_kwargs = dict(zip(unresolved_dependencies_names, resolved))

''')], "R-C02-CATCH")
M("c02-no-timeout", ["C02"], [(PROC, '''            _result = await asyncio.wait_for(
                actor.fn(*args, **kwargs, **dependency_kwargs),
                timeout=time_limit,
            )''', '''            _result = await actor.fn(*args, **kwargs, **dependency_kwargs)''')], "R-C02-CATCH")
M("c02-catch-baseexception", ["C02", "C03"], [(PROC, "        except Exception as exc:  # noqa: BLE001\n            exception = exc", "        except BaseException as exc:  # noqa: BLE001\n            exception = exc")], "R-C02-CATCH")
M("c02-noaction-reporting-false", ["C02"], [(PROC, '''                finished_when=time.time_ns(),
                reporting_done=True,''', '''                finished_when=time.time_ns(),
                reporting_done=False,''')], "R-C02-CATCH")
M("c02-success-true-in-handler", ["C02"], [(PROC, "            exception = exc\n            success = False\n", "            exception = exc\n            success = True\n")], "R-C02-CATCH")
M("c02-reject-without-cancel", ["C02", "C14"], [(RUN, "            process_task.cancel()\n            await self._conn.message_broker.reject(key)", "            await self._conn.message_broker.reject(key)")], "R-C02-RACE")
R("c02-r-done-via-pending", ["C02", "C03"], [(RUN, '''        await asyncio.wait(
            {self.cancel_event_task, process_task},
            return_when=asyncio.FIRST_COMPLETED,
        )
        if self.cancel_event.is_set() and not process_task.done():''', '''        _, pending = await asyncio.wait(
            {self.cancel_event_task, process_task},
            return_when=asyncio.FIRST_COMPLETED,
        )
        if self.cancel_event.is_set() and process_task in pending:''')])
R("c02-r-ladder-nested-ifs", ["C02", "C04", "C06"], [(PROC, '''        elif result.success:
            await self._conn.message_broker.ack(key)
        # nack
        else:
            await self._conn.message_broker.nack(key)''', '''        else:
            if not result.success:
                await self._conn.message_broker.nack(key)
            else:
                await self._conn.message_broker.ack(key)''')])
R("c02-r-ladder-locals", ["C02", "C04", "C06"], [(PROC, '''        if not result.success and parameters.retries.already_tried < parameters.retries.max_amount:
            await self._conn.message_broker.requeue(
                key,
                payload,
                parameters._prepare_retry(actor.retry_policy(parameters.retries.already_tried + 1)),
            )''', '''        retries = parameters.retries
        if not result.success and retries.max_amount > retries.already_tried:
            new_params = parameters._prepare_retry(actor.retry_policy(1 + retries.already_tried))
            await self._conn.message_broker.requeue(key, payload, new_params)''')])

# ----------------------------------------------------------------------------------------------- C09 / C10 (runner)
M("c10-gate-fix-reverted", ["C10"], [(RUN, '''            if self._tasks_started >= self.max_tasks:
                # messages limit is exhausted: give the message back and stop consuming
                self._limiter.release()
                await self._conn.message_broker.reject(key)
                return
            self._tasks_started += 1
''', "")], "R-C10-GATE")
M("c10-gate-off-by-one", ["C10"], [(RUN, "if self._tasks_started >= self.max_tasks:", "if self._tasks_started > self.max_tasks:")], "R-C10-GATE")
M("c10-gate-no-increment", ["C10"], [(RUN, "            self._tasks_started += 1\n", "")], "R-C10-GATE")
M("c10-gate-permit-leak", ["C10", "C09"], [(RUN, "                self._limiter.release()\n                await self._conn.message_broker.reject(key)\n", "                await self._conn.message_broker.reject(key)\n")], None)
M("c10-gate-no-reject", ["C10"], [(RUN, "                self._limiter.release()\n                await self._conn.message_broker.reject(key)\n                return\n", "                self._limiter.release()\n                return\n")], "R-C10-GATE")
M("c10-gate-continue-instead-of-return", ["C10"], [(RUN, "                await self._conn.message_broker.reject(key)\n                return\n", "                await self._conn.message_broker.reject(key)\n                continue\n")], "R-C10-GATE")
M("c10-stop-test-before-count", ["C10"], [(RUN, '''        self._tasks_processed += 1
        if self.max_tasks_hit:
            self.stop_consume_event.set()''', '''        if self.max_tasks_hit:
            self.stop_consume_event.set()
        self._tasks_processed += 1''')], "R-C10-STOP")
M("c10-hit-strict", ["C10"], [(RUN, "            <= 0\n", "            < 0\n")], "R-C10-STOP")
M("c10-plugin-limit-2", ["C10"], [("repid/testing/plugin.py", "messages_limit=1,", "messages_limit=2,")], "R-C10-PLUGIN")
M("c09-spawn-before-acquire", ["C09"], [(RUN, '''            if self._limiter.locked():
                await consumer.pause()
                await self._limiter.acquire()
                await consumer.unpause()
            else:
                await self._limiter.acquire()
''', '''            if self._limiter.locked():
                await consumer.pause()
                await self._limiter.acquire()
                await consumer.unpause()
''')], "R-C09-PAIR")
M("c09-no-callback", ["C09"], [(RUN, "            t.add_done_callback(self._task_callback)\n", "")], "R-C09-PAIR")
M("c09-release-conditional", ["C09"], [(RUN, "        self._tasks.discard(task)\n        self._limiter.release()\n", "        self._tasks.discard(task)\n        if not task.cancelled():\n            self._limiter.release()\n")], "R-C09-PAIR")
M("c09-double-release", ["C09"], [(RUN, "        await process_task\n", "        await process_task\n        self._limiter.release()\n")], "R-C09-PAIR")
M("c09-limiter-wrong-size", ["C09"], [(RUN, "self._limiter = asyncio.Semaphore(tasks_concurrency_limit)", "self._limiter = asyncio.Semaphore(tasks_concurrency_limit + 1)")], "R-C09-OWN")
M("c09-worker-limit-swapped", ["C09"], [("repid/worker.py", "            tasks_concurrency_limit=self.tasks_limit,\n", "            tasks_concurrency_limit=self.messages_limit,\n")], None)
M("c09-unpause-missing", ["C09"], [(RUN, "                await self._limiter.acquire()\n                await consumer.unpause()\n", "                await self._limiter.acquire()\n")], "R-C09-PAUSE")
M("c09-pause-after-acquire", ["C09"], [(RUN, "                await consumer.pause()\n                await self._limiter.acquire()\n                await consumer.unpause()", "                await self._limiter.acquire()\n                await consumer.pause()\n                await consumer.unpause()")], "R-C09-PAUSE")
R("c09-r-single-acquire", ["C09", "C10"], [(RUN, '''            if self._limiter.locked():
                await consumer.pause()
                await self._limiter.acquire()
                await consumer.unpause()
            else:
                await self._limiter.acquire()
''', '''            saturated = self._limiter.locked()
            if saturated:
                await consumer.pause()
            await self._limiter.acquire()
            if saturated:
                await consumer.unpause()
''')])
R("c10-r-gate-not-lt", ["C10"], [(RUN, "if self._tasks_started >= self.max_tasks:", "if not self._tasks_started < self.max_tasks:")])

# ----------------------------------------------------------------------------------------------- C17
WRAP = "repid/middlewares/wrapper.py"
MWARE = "repid/middlewares/middleware.py"
M("c17-emitter-fix-reverted", ["C17"], [(PROC, '''    __slots__ = ("_conn", "_processed", "actor_run")

    def __init__(self, _conn: Connection) -> None:
        self._conn = _conn
        # every processor owns its wrapper, so that signals are emitted to its own connection only
        self.actor_run = middleware_wrapper(self._actor_run, name="actor_run")
''', '''    __slots__ = ("_conn", "_processed")

    def __init__(self, _conn: Connection) -> None:
        self._conn = _conn
'''), (PROC, '''    @staticmethod
    async def _actor_run(''', '''    @staticmethod
    @middleware_wrapper
    async def actor_run(''')], "R-C17-EMITTER-OWN")
M("c17-after-before-call", ["C17"], [(WRAP, '''        result = await create_task(self.call_set_context(*args, **kwargs))
        # whatever the function returns can be seen as `result` kwarg in `after` signal
        signal_kwargs.update({"result": result})

        # emit `after` signal
        await self._repid_signal_emitter(f"after_{self.name}", signal_kwargs)
''', '''        # emit `after` signal
        await self._repid_signal_emitter(f"after_{self.name}", signal_kwargs)
        result = await create_task(self.call_set_context(*args, **kwargs))
        # whatever the function returns can be seen as `result` kwarg in `after` signal
        signal_kwargs.update({"result": result})
''')], "R-C17-PROTOCOL")
M("c17-before-not-awaited", ["C17"], [(WRAP, '''        await self._repid_signal_emitter(f"before_{self.name}", signal_kwargs)''', '''        create_task(self._repid_signal_emitter(f"before_{self.name}", signal_kwargs))''')], "R-C17-PROTOCOL")
M("c17-nested-still-emits", ["C17"], [(WRAP, "if IsInsideMiddleware.get() or self._repid_signal_emitter is None:", "if self._repid_signal_emitter is None:")], "R-C17-PROTOCOL")
M("c17-kwargs-not-copied", ["C17"], [(WRAP, "signal_kwargs = kwargs.copy()", "signal_kwargs = kwargs")], "R-C17-PROTOCOL")
M("c17-swallow-operation-error", ["C17"], [(WRAP, '''        result = await create_task(self.call_set_context(*args, **kwargs))
''', '''        try:
            result = await create_task(self.call_set_context(*args, **kwargs))
        except Exception:
            result = None
''')], "R-C17-PROTOCOL")
M("c17-flag-set-in-caller", ["C17"], [(WRAP, '''        IsInsideMiddleware.set(True)  # noqa: FBT003
        return await self.fn(*args, **kwargs)''', '''        return await self.fn(*args, **kwargs)'''), (WRAP, '''        result = await create_task(self.call_set_context(*args, **kwargs))''', '''        IsInsideMiddleware.set(True)  # noqa: FBT003
        result = await create_task(self.call_set_context(*args, **kwargs))
        IsInsideMiddleware.set(False)  # noqa: FBT003''')], "R-C17-CONTEXT")
M("c17-wrapped-table-missing", ["C17"], [("repid/middlewares/consts.py", '    "requeue",\n', "")], "R-C17-TABLE")
M("c17-abc-wrapped-missing", ["C17"], [("repid/connections/abc.py", '        "nack",\n        "requeue",', '        "nack",')], "R-C17-TABLE")
M("c17-subscriber-reraise", ["C17"], [(MWARE, '''                logger.exception(
                    "Subscriber '{fn_name}' ({fn}) raised an exception.",
                    extra=logger_extra,
                )
''', '''                logger.exception(
                    "Subscriber '{fn_name}' ({fn}) raised an exception.",
                    extra=logger_extra,
                )
                raise
''')], "R-C17-ISOLATE")
M("c17-subscriber-narrow-handler", ["C17"], [(MWARE, "            except Exception:  # noqa: BLE001\n                logger.exception(", "            except ValueError:\n                logger.exception(")], "R-C17-ISOLATE")
M("c17-consumer-emitter-dropped", ["C17"], [("repid/connections/abc.py", "        consumer._signal_emitter = self._signal_emitter\n", "")], "R-C17-EMITTER-OWN")
R("c17-r-result-subscript", ["C17"], [(WRAP, '        signal_kwargs.update({"result": result})\n', '        signal_kwargs["result"] = result\n')])

# ----------------------------------------------------------------------------------------------- C19 / C20
RP = "repid/retry_policy.py"
HC = "repid/health_check_server.py"
WK = "repid/worker.py"
M("c19-clamp-order", ["C19"], [(RP, '''        backoff = min(multiplier * 2**exponent, max_backoff)
        return timedelta(seconds=max(min_backoff, backoff))''', '''        backoff = max(min_backoff, multiplier * 2**exponent)
        return timedelta(seconds=min(backoff, max_backoff) + min_backoff)''')], "R-C19-BACKOFF")
M("c19-exponent-unbounded", ["C19"], [(RP, "        exponent = min(retry_number, max_exponent)\n", "        exponent = retry_number\n")], "R-C19-BACKOFF")
M("c19-no-lower-clamp", ["C19"], [(RP, "return timedelta(seconds=max(min_backoff, backoff))", "return timedelta(seconds=backoff)")], "R-C19-BACKOFF")
M("c19-overdue-ge", ["C19", "C12"], [(PAR, "return datetime.now(tz=self.timestamp.tzinfo) > self.timestamp + self.ttl", "return datetime.now(tz=self.timestamp.tzinfo) >= self.timestamp + self.ttl")], None)
M("c19-job-overdue-timestamp-only", ["C19", "C12"], [("repid/job.py", "return datetime.now(tz=self.timestamp.tzinfo) > self.timestamp + self.ttl", "return datetime.now(tz=self.timestamp.tzinfo) > self.timestamp")], None)
M("c19-period-no-plus-one", ["C19"], [(PAR, "defer_by_times = (now - self.timestamp) // self.delay.defer_by + 1", "defer_by_times = (now - self.timestamp) // self.delay.defer_by")], "R-C19-PERIOD")
R("c19-r-backoff-inline", ["C19"], [(RP, '''        exponent = min(retry_number, max_exponent)
        backoff = min(multiplier * 2**exponent, max_backoff)
        return timedelta(seconds=max(min_backoff, backoff))''', '''        return timedelta(seconds=max(min(max_backoff, 2 ** min(max_exponent, retry_number) * multiplier), min_backoff))''')])
R("c19-r-period-commuted", ["C19", "C06"], [(PAR, '''            defer_by_times = (now - self.timestamp) // self.delay.defer_by + 1
            time_offset = self.delay.defer_by * defer_by_times
            return self.timestamp + time_offset''', '''            periods = 1 + (now - self.timestamp) // self.delay.defer_by
            return periods * self.delay.defer_by + self.timestamp''')])
M("c20-pair-fix-reverted", ["C20"], [(WK, '''        try:
            return await self._run()
        finally:
            # the port must not stay open after the run is over, whichever way it ends
            if self.health_check_server is not None:
                await asyncio.wait_for(
                    self.health_check_server.stop(),
                    timeout=self.graceful_health_check_server_finish_time,
                )
''', '''        runner = await self._run()
        if self.health_check_server is not None:
            await asyncio.wait_for(
                self.health_check_server.stop(),
                timeout=self.graceful_health_check_server_finish_time,
            )
        return runner
''')], "R-C20-PAIR")
M("c20-status-captured-at-start", ["C20"], [(HC, '''            self._server = await loop.create_server(
                lambda: _HttpServerProtocol(
                    endpoint_name=self.server_settings.endpoint_name,
                    status=self.health_status,
                ),''', '''            status = self.health_status
            self._server = await loop.create_server(
                lambda: _HttpServerProtocol(
                    endpoint_name=self.server_settings.endpoint_name,
                    status=status,
                ),''')], "R-C20-FRESH")
M("c20-unhealthy-on-normal-stop", ["C20"], [(RUN, '''        if (
            consume_task.done()
            and not consume_task.cancelled()
            and (exc := consume_task.exception()) is not None
        ):''', '''        exc = None
        if consume_task.done():''')], "R-C20-STATUS-OWN")
M("c20-404-for-get-only", ["C20"], [(HC, 'if method == "GET" and path == self.endpoint_name:', 'if method == "GET" or path == self.endpoint_name:')], "R-C20-TABLE")
M("c20-status-reset-ok", ["C20"], [(RUN, "        await consumer.pause()\n        return consumer", "        if self._health_check_server is not None:\n            self._health_check_server.health_status = HealthCheckStatus.OK\n        await consumer.pause()\n        return consumer")], "R-C20-STATUS-OWN")
M("c20-server-not-handed-to-runner", ["C20"], [(WK, "            health_check_server=self.health_check_server,\n", "")], "R-C20-STATUS-OWN")
# (was a must-stay-silent entry until a round-4 seeded change showed that an unbounded stop() hangs run() behind a silent client: Server.wait_closed waits for open connections)
M("c20-stop-without-wait_for", ["C20"], [(WK, '''                await asyncio.wait_for(
                    self.health_check_server.stop(),
                    timeout=self.graceful_health_check_server_finish_time,
                )
''', '''                await self.health_check_server.stop()
''')], "R-C20-PAIR")

# ----------------------------------------------------------------------------------------------- C08
CONV = "repid/converter.py"
M("c08-pydantic-empty-fix-reverted", ["C08"], [(CONV, 'self.input_pydantic_model.model_validate_json(data or "{}")', "self.input_pydantic_model.model_validate_json(data)")], "R-C08-EMPTY")
M("c08-pydantic-v1-empty-fix-reverted", ["C08"], [(CONV, 'self.input_pydantic_model.parse_raw(data or "{}")', "self.input_pydantic_model.parse_raw(data)")], "R-C08-EMPTY")
M("c08-basic-sentinel-fix-reverted", ["C08"], [(CONV, '''        for name, value in (*zip(self.args, args), *kwargs.items()):
            if value is inspect.Parameter.empty:
                raise ValueError(f"Missing argument '{name}' which has no default value.")
''', "")], "R-C08-SENTINEL")
M("c08-basic-sentinel-kwargs-only", ["C08"], [(CONV, "for name, value in (*zip(self.args, args), *kwargs.items()):", "for name, value in kwargs.items():")], "R-C08-SENTINEL")
M("c08-basic-empty-guard-dropped", ["C08"], [(CONV, "        if not data:\n            return ([], {})\n", "")], "R-C08-EMPTY")
M("c08-basic-var-keyword-ignored", ["C08"], [(CONV, '''            elif p.kind == inspect.Parameter.VAR_POSITIONAL:
                self.all_args = True
            elif p.kind == inspect.Parameter.VAR_KEYWORD:
                self.all_kwargs = True
''', '''            elif p.kind == inspect.Parameter.VAR_POSITIONAL:
                self.all_args = True
''')], "R-C08-KINDS")
M("c08-pydantic-field-default-none", ["C08"], [(CONV, "p.default if p.default is not inspect.Parameter.empty else Field(),", "p.default if p.default is not inspect.Parameter.empty else None,")], "R-C08-SENTINEL")
M("c08-extras-always-to-kwargs", ["C08"], [(CONV, "        if self.all_kwargs:\n            kwargs.update(loaded)", "        if self.all_kwargs or loaded:\n            kwargs.update(loaded)")], "R-C08-ALIGN")
M("c08-default-converter-order", ["C08"], [(CONV, '''        if is_installed("pydantic", ">=2.0.0,<3.0.0"):
            return PydanticConverter(fn)
        if is_installed("pydantic", ">=1.0.0,<2.0.0"):
            return PydanticV1Converter(fn)''', '''        if is_installed("pydantic", ">=2.0.0,<3.0.0"):
            return PydanticV1Converter(fn)
        if is_installed("pydantic", ">=1.0.0,<2.0.0"):
            return PydanticConverter(fn)''')], "R-C08-CALL")
M("c08-actor-gets-raw-payload", ["C08"], [(PROC, "result = await self.actor_run(actor, key, parameters, raw_payload, self._conn)", "result = await self.actor_run(actor, key, parameters, payload, self._conn)")], None)
R("c08-r-pydantic-explicit-guard", ["C08"], [(CONV, '''        loaded = dict(self.input_pydantic_model.model_validate_json(data or "{}"))
''', '''        if not data:
            data = "{}"
        loaded = dict(self.input_pydantic_model.model_validate_json(data))
''')])

# ----------------------------------------------------------------------------------------------- C11 / C12 / C07
ROUT = "repid/router.py"
RCONS = "repid/connections/redis/consumer.py"
MCONS = "repid/connections/in_memory/consumer.py"
QCONS = "repid/connections/rabbitmq/consumer.py"
M("c11-sync-fix-reverted", ["C11"], [(ROUT, "        self._forget_topic(a.name, a.queue)\n", "")], "R-C11-SYNC")
M("c11-include-fix-reverted", ["C11"], [(ROUT, "        for name, actor in router.actors.items():\n            self._forget_topic(name, actor.queue)\n", "")], "R-C11-SYNC")
M("c11-worker-wrong-topics", ["C11"], [("repid/worker.py", "                        self.topics_by_queue[queue_name],\n", "                        self.topics,\n")], "R-C11-WIRING")
M("c11-inmem-foreign-to-dead", ["C11", "C12"], [(MCONS, "        if self.topics and msg.key.topic not in self.topics:  # topics don't match\n            self._queue.simple.put_nowait(msg)", "        if self.topics and msg.key.topic not in self.topics:  # topics don't match\n            self._queue.dead.append(msg)")], None)
M("c11-inmem-foreign-dropped", ["C11"], [(MCONS, "        if self.topics and msg.key.topic not in self.topics:  # topics don't match\n            self._queue.simple.put_nowait(msg)\n", "        if self.topics and msg.key.topic not in self.topics:  # topics don't match\n")], "R-C11-FILTER")
M("c11-rabbit-foreign-nack", ["C11", "C12"], [(QCONS, '''            await asyncio.sleep(0.1)  # poison message fix
            await self.broker._channel.basic_reject(message.delivery_tag)
            logger.debug(
                "Unknown message's topic.''', '''            await asyncio.sleep(0.1)  # poison message fix
            await self.broker._channel.basic_nack(message.delivery_tag, requeue=False)
            logger.debug(
                "Unknown message's topic.''')], None)
M("c11-rabbit-foreign-no-requeue", ["C11"], [(QCONS, '''            await asyncio.sleep(0.1)  # poison message fix
            await self.broker._channel.basic_reject(message.delivery_tag)
            logger.debug(
                "Unknown message's topic.''', '''            await asyncio.sleep(0.1)  # poison message fix
            await self.broker._channel.basic_reject(message.delivery_tag, requeue=False)
            logger.debug(
                "Unknown message's topic.''')], "R-C11-FILTER")
M("c11-actor-lookup-by-queue", ["C11"], [(RUN, "actor = actors[key.topic]", "actor = actors.get(key.topic) or next(iter(actors.values()))")], "R-C11-WIRING")
M("c12-redis-category-fix-reverted", ["C12"], [(RCONS, "if params.is_overdue and self.category == MessageCategory.NORMAL:", "if params.is_overdue:")], "R-C12-RETRIEVABLE")
M("c12-rabbit-category-dropped", ["C12"], [(QCONS, "if params.is_overdue and self.category == MessageCategory.NORMAL:", "if params.is_overdue:")], "R-C12-RETRIEVABLE")
M("c12-inmem-overdue-after-topic", ["C12"], [(MCONS, '''        if msg.parameters.is_overdue:  # ttl expired
            self._queue.dead.append(msg)
            return None
        if self.topics and msg.key.topic not in self.topics:  # topics don't match
            self._queue.simple.put_nowait(msg)
            return None
        return msg''', '''        if self.topics and msg.key.topic not in self.topics:  # topics don't match
            self._queue.simple.put_nowait(msg)
            return None
        return msg''')], "R-C12-GATE")
M("c12-redis-overdue-handed-out", ["C12"], [(RCONS, "                await self.broker.nack(key)\n                continue\n", "                await self.broker.nack(key)\n")], "R-C12-GATE")
M("c12-rabbit-nack-requeues", ["C12"], [(QCONS, "await self.broker._channel.basic_nack(message.delivery_tag, requeue=False)\n            logger.debug(\"Message is overdue", "await self.broker._channel.basic_nack(message.delivery_tag)\n            logger.debug(\"Message is overdue")], "R-C12-GATE")
M("c12-retry-restarts-clock", ["C12", "C04"], [(PAR, '''            datetime.now() + next_retry,
        )
        return copy''', '''            datetime.now() + next_retry,
        )
        object.__setattr__(copy, "timestamp", datetime.now())
        return copy''')], None)
M("c07-priority-fix-reverted", ["C07"], [(QCONS, '''                    priority=(
                        message.header.properties.priority
                        if message.header.properties.priority is not None
                        else PrioritiesT.MEDIUM.value
                    ),''', '''                    priority=message.header.properties.priority or PrioritiesT.MEDIUM.value,''')], "R-C07-FALSY")
M("c07-decode-ttl-forgotten", ["C07"], [(PAR, '            elif key in ["execution_timeout", "ttl"]:', '            elif key in ["execution_timeout"]:')], "R-C07-CODEC")
M("c07-decode-int-seconds", ["C07"], [(PAR, '''            elif key == "defer_by":
                loaded[key] = timedelta(seconds=float(value))''', '''            elif key == "defer_by":
                loaded[key] = timedelta(seconds=int(value))''')], "R-C07-CODEC")
M("c07-job-queue-default", ["C07"], [("repid/job.py", "            queue=self.queue.name,\n", "")], "R-C07-MAP")
M("c07-job-ttl-to-timeout", ["C07"], [("repid/job.py", "            ttl=self.ttl,\n        )", "            ttl=self.timeout,\n        )")], "R-C07-MAP")
M("c07-redis-requeue-old-params", ["C07", "C01"], [("repid/connections/redis/message_broker.py", 'pipe.hset(mnc(key), mapping={"payload": payload, "parameters": params.encode()})', 'pipe.hset(mnc(key), mapping={"payload": payload})')], "R-C07-WIRE")
M("c07-valid-name-allows-colon", ["C07"], [("repid/_utils/regex_validators.py", 'VALID_NAME = re.compile(r"[a-zA-Z_][a-zA-Z0-9_-]*")', 'VALID_NAME = re.compile(r"[a-zA-Z_][a-zA-Z0-9_:-]*")')], "R-C07-ALPHABET")
M("c07-routing-key-match", ["C07"], [("repid/data/_key.py", "if not VALID_NAME.fullmatch(self.topic):", "if not VALID_NAME.match(self.topic):")], "R-C07-ALPHABET")
M("c07-rabbit-topic-header-renamed", ["C07"], [("repid/connections/rabbitmq/message_broker.py", 'headers={"queue": key.queue, "topic": key.topic},', 'headers={"queue": key.queue, "name": key.topic},')], "R-C07-WIRE")
R("c07-r-priority-local", ["C07"], [(QCONS, '''        # create a key object and put message in in-memory queue to be picked up soon
        await self.queue.put(''', '''        # create a key object and put message in in-memory queue to be picked up soon
        await self.queue.put('''), (QCONS, '''                    priority=(
                        message.header.properties.priority
                        if message.header.properties.priority is not None
                        else PrioritiesT.MEDIUM.value
                    ),''', '''                    priority=(
                        PrioritiesT.MEDIUM.value
                        if message.header.properties.priority is None
                        else message.header.properties.priority
                    ),''')])

# ----------------------------------------------------------------------------------------------- C15 / C01 (brokers)
RBRK = "repid/connections/redis/message_broker.py"
MBRK = "repid/connections/in_memory/message_broker.py"
QBRK = "repid/connections/rabbitmq/message_broker.py"
M("c15-scan-fix-reverted", ["C15"], [(RCONS, "                names.reverse()  # the oldest message is at the end of the list - check it first\n", "")], "R-C15-DISCIPLINE")
M("c15-new-messages-at-tail", ["C15"], [(RBRK, '''            if not in_front:
                pipe.lpush(qnc(key.queue, key.priority), mnc(key, short=True))
            else:
                pipe.rpush(qnc(key.queue, key.priority), mnc(key, short=True))''', '''            pipe.rpush(qnc(key.queue, key.priority), mnc(key, short=True))''')], "R-C15-DISCIPLINE")
M("c15-reject-behind", ["C15"], [(RBRK, '''                    delay_until=utils.wait_timestamp(params),
                    in_front=True,
                )
            self.__unmark_processing(key, pipe)
            await pipe.execute()

    async def requeue''', '''                    delay_until=utils.wait_timestamp(params),
                )
            self.__unmark_processing(key, pipe)
            await pipe.execute()

    async def requeue''')], None)
M("c15-window-from-head", ["C15"], [(RCONS, '''                    offset - self.PREFETCH_AMOUNT,  # range from the end of the queue
                    offset - 1,''', '''                    offset,
                    offset + self.PREFETCH_AMOUNT - 1,''')], "R-C15-DISCIPLINE")
M("c15-lrem-from-head", ["C15"], [(RCONS, "pipe.lrem(full_queue_name, -1, msg_short_name)", "pipe.lrem(full_queue_name, 1, msg_short_name)")], "R-C15-DISCIPLINE")
M("c15-inmem-peek-internals", ["C15"], [(MCONS, "            msg = self._queue.simple.get_nowait()\n", "            msg = self._queue.simple._queue.pop()\n            self._queue.simple._unfinished_tasks += 0\n")], "R-C15-INMEM")
M("c01-inmem-requeue-fix-reverted", ["C01", "C03"], [(MBRK, '''        await asyncio.sleep(0)

        # the held message is replaced without a suspension point in between,
        # so that a cancellation can not lose it
        q = self.queues[key.queue]
        for msg in q.processing:
            if msg.key.id_ == key.id_:
                q.processing.remove(msg)
                break
        self._put_in_queue(key, payload, params)

        await asyncio.sleep(0)
''', '''        await self.ack(key)
        await self.enqueue(key, payload, params)
''')], "R-C01-ATOMIC")
M("c01-inmem-nack-no-dead", ["C01"], [(MBRK, "                q.processing.remove(msg)\n                q.dead.append(msg)\n", "                q.processing.remove(msg)\n")], "R-C01-TRANSFER")
M("c01-inmem-reject-duplicates", ["C01", "C14"], [(MBRK, "                q.processing.remove(msg)\n                # return the message to where its consumer has taken it from\n", "                # return the message to where its consumer has taken it from\n")], "R-C01-TRANSFER")
M("c01-inmem-ack-await-in-loop", ["C01"], [(MBRK, '''            if msg.key.id_ == key.id_:
                q.processing.remove(msg)
                q.dead.append(msg)''', '''            if msg.key.id_ == key.id_:
                q.processing.remove(msg)
                await asyncio.sleep(0)
                q.dead.append(msg)''')], "R-C01-ATOMIC")
M("c01-redis-ack-keeps-processing", ["C01", "C03"], [(RBRK, "            pipe.delete(mnc(key))\n            self.__unmark_processing(key=key, pipe=pipe)\n", "            pipe.delete(mnc(key))\n")], "R-C01-TRANSFER")
M("c01-redis-nack-not-transactional", ["C01"], [(RBRK, '''        async with self.conn.pipeline(transaction=True) as pipe:
            self.__mark_dead(key, pipe)''', '''        async with self.conn.pipeline(transaction=False) as pipe:
            self.__mark_dead(key, pipe)''')], "R-C01-ATOMIC")
M("c01-redis-requeue-two-round-trips", ["C01", "C03"], [(RBRK, '''                in_front=True,
            )
            self.__unmark_processing(key, pipe)
            await pipe.execute()

    async def queue_declare''', '''                in_front=True,
            )
            await pipe.execute()
            self.__unmark_processing(key, pipe)
            await pipe.execute()

    async def queue_declare''')], "R-C01-ATOMIC")
M("c01-redis-take-direct-zadd", ["C01", "C14"], [(RCONS, "        pipe.zadd(self.broker.processing_queue, {msg_short_name: str(unix_time())})", "        self.conn.zadd(self.broker.processing_queue, {msg_short_name: str(unix_time())})")], None)
M("c01-redis-unmark-wrong-member", ["C01"], [(RBRK, "        pipe.zrem(self.processing_queue, mnc(key, short=True))", "        pipe.zrem(self.processing_queue, mnc(key))")], "R-C01-TRANSFER")
M("c01-rabbit-nack-requeues", ["C01"], [(QBRK, "await self._channel.basic_nack(delivery_tag, requeue=False)  # will trigger dlx", "await self._channel.basic_nack(delivery_tag)")], None)
M("c01-rabbit-reject-drops", ["C01", "C03"], [(QBRK, "await self._channel.basic_reject(delivery_tag, requeue=True)", "await self._channel.basic_reject(delivery_tag, requeue=False)")], None)
M("c01-rabbit-requeue-publish-first", ["C01", "C14"], [(QBRK, "        await self.ack(key)\n        await self.enqueue(key, payload, params)", "        await self.enqueue(key, payload, params)\n        await self.ack(key)")], None)
M("c01-inmem-consume-add-after-sleep", ["C01", "C14"], [(MCONS, "        self._queue.processing.add(msg)\n", "        await asyncio.sleep(0)\n        self._queue.processing.add(msg)\n")], None)
M("c01-outside-writer", ["C01"], [("repid/queue.py", '''    async def flush(self) -> None:
        await self._conn.message_broker.queue_flush(self.name)''', '''    async def flush(self) -> None:
        broker = self._conn.message_broker
        if hasattr(broker, "queues") and self.name in broker.queues:
            broker.queues[self.name].processing.clear()
        await self._conn.message_broker.queue_flush(self.name)''')], "R-OWN")
R("c01-r-inmem-nack-helper", ["C01"], [(MBRK, '''        q = self.queues[key.queue]
        for msg in q.processing:
            if msg.key.id_ == key.id_:
                q.processing.remove(msg)
                q.dead.append(msg)
                break
''', '''        q = self.queues[key.queue]
        held = None
        for msg in q.processing:
            if msg.key.id_ == key.id_:
                held = msg
                break
        if held is not None:
            q.processing.remove(held)
            q.dead.append(held)
''')])

# ----------------------------------------------------------------------------------------------- extra coverage
M("c01-declare-wipes-existing", ["C01"], [(MBRK, "        if queue_name not in self.queues:\n            self.queues[queue_name] = DummyQueue()\n", "        self.queues[queue_name] = DummyQueue()\n")], "R-C01-TRANSFER")
M("c01-shared-default-queue", ["C01"], [("repid/connections/in_memory/utils.py", "    simple: asyncio.Queue[Message] = field(default_factory=asyncio.Queue)", "    simple: asyncio.Queue[Message] = field(default=asyncio.Queue())")], "R-C01-TRANSFER")
M("c03-aexit-no-finish", ["C03"], [("repid/connections/abc.py", "    async def __aexit__(self, *exc: object) -> None:\n        await self.finish()", "    async def __aexit__(self, *exc: object) -> None:\n        await self.pause()")], "R-C03-FINISH")
M("c13-redis-expiry-from-ttl-only", ["C13"], [("repid/connections/redis/bucket_broker.py", "exat=payload.timestamp + payload.ttl if payload.ttl is not None else None,", "ex=payload.ttl,")], "R-C13-FIELDS")
M("c18-asyncify-drops-kwargs", ["C18"], [("repid/_asyncify.py", "partial(fn, *args, **kwargs),  # type: ignore[arg-type]", "partial(fn, *args),  # type: ignore[arg-type]")], "R-C18-FLOW")

# ----------------------------------------------------------------------------------------------- normalisations (constants, tables)
_RU = "repid/connections/redis/utils.py"
_RC = "repid/connections/redis/consumer.py"
_RB = "repid/connections/redis/message_broker.py"
R("norm-r-reject-field-constant", ["C01", "C05", "C14"], [
    (_RU, 'VALID_PRIORITIES = ', 'REJECT_TO_FIELD = "_reject_to"\nVALID_PRIORITIES = '),
    (_RC, '            key="_reject_to",', '            key=utils_REJECT,'),
    (_RC, 'class _RedisConsumer(ConsumerT):', 'from repid.connections.redis.utils import REJECT_TO_FIELD as utils_REJECT\n\n\nclass _RedisConsumer(ConsumerT):'),
])
M("norm-reject-field-constant-mismatch", ["C01"], [
    (_RU, 'VALID_PRIORITIES = ', 'REJECT_TO_FIELD = "_rejected_to"\nVALID_PRIORITIES = '),
    (_RC, '            key="_reject_to",', '            key=utils_REJECT,'),
    (_RC, 'class _RedisConsumer(ConsumerT):', 'from repid.connections.redis.utils import REJECT_TO_FIELD as utils_REJECT\n\n\nclass _RedisConsumer(ConsumerT):'),
], "R-C01-SOURCE")
R("norm-r-runner-limiter-alias", ["C09", "C10", "C03", "C02"], [("repid/_runner.py", '''        async for key, payload, params in consumer:
            actor = actors[key.topic]
            if self._limiter.locked():
                await consumer.pause()
                await self._limiter.acquire()
                await consumer.unpause()
            else:
                await self._limiter.acquire()
            if self._tasks_started >= self.max_tasks:
                # messages limit is exhausted: give the message back and stop consuming
                self._limiter.release()
                await self._conn.message_broker.reject(key)
                return''', '''        limiter = self._limiter
        broker = self._conn.message_broker
        async for key, payload, params in consumer:
            actor = actors[key.topic]
            if limiter.locked():
                await consumer.pause()
                await limiter.acquire()
                await consumer.unpause()
            else:
                await limiter.acquire()
            if self._tasks_started >= self.max_tasks:
                # messages limit is exhausted: give the message back and stop consuming
                limiter.release()
                await broker.reject(key)
                return''')])
R("norm-r-message-broker-alias", ["C16", "C02", "C13"], [("repid/message.py", '''        await self._connection.message_broker.nack(self._key)

        self.__read_only = True
''', '''        broker = self._connection.message_broker
        await broker.nack(self._key)
        logger.debug("Message {id_} was nacked.", extra={"id_": self._key.id_})

        self.__read_only = True
''')])

# ----------------------------------------------------------------------------------------------- C14 fix reverted (in-memory finish ownership)
M("c14-fix-reverted-finish-drains-all", ["C14"], [("repid/connections/in_memory/consumer.py", '''        for msg in [m for m, holder in self._queue.holders.items() if holder is self]:
            del self._queue.holders[msg]
            if msg in self._queue.processing:
                self._queue.processing.remove(msg)
                self._queue.simple.put_nowait(msg)
''', '''        while self._queue.processing:
            self._queue.simple.put_nowait(self._queue.processing.pop())
''')], "R-C14-FINISH-OWN")
M("c14-holder-not-recorded", ["C14"], [("repid/connections/in_memory/consumer.py", '''        self._queue.holders[msg] = self
''', '''        pass
''')], "R-C14-FINISH-OWN")
M("c14-finish-without-owner-filter", ["C14"], [("repid/connections/in_memory/consumer.py", '''        for msg in [m for m, holder in self._queue.holders.items() if holder is self]:''', '''        for msg in [m for m, holder in self._queue.holders.items()]:''')], "R-C14-FINISH-OWN")

# ----------------------------------------------------------------------------------------------- C01 fix reverted (in-memory reject to source)
M("c01-fix-reverted-reject-always-waiting", ["C01"], [("repid/connections/in_memory/message_broker.py", '''                category = getattr(q.holders.pop(msg, None), "category", MessageCategory.NORMAL)
                delay = wait_until(msg.parameters) if category == MessageCategory.DELAYED else None
                if category == MessageCategory.DEAD:
                    q.dead.insert(0, msg)
                elif delay is not None:
                    q.delayed.setdefault(delay, []).insert(0, msg)
                else:
                    q.simple.put_nowait(msg)
''', '''                q.simple.put_nowait(msg)
''')], "R-C01-SOURCE")
M("c01-reject-dead-to-delayed", ["C01"], [("repid/connections/in_memory/message_broker.py", '''                if category == MessageCategory.DEAD:
                    q.dead.insert(0, msg)
''', '''                if category == MessageCategory.DEAD:
                    q.simple.put_nowait(msg)
''')], "R-C01-SOURCE")
