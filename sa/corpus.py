"""Self-test corpus: must-fire mutants (M) and must-stay-silent refactors (R).

Entry: id, props (properties whose check is exercised), expect ('fire'|'silent'), optional rule prefix that must
be among the reported rules, edits = [(path, exact old text, new text)] - each old text must occur exactly once.
"""
from __future__ import annotations

CORPUS: list[dict] = []


def M(id_, props, edits, rule=None):
    CORPUS.append({"id": id_, "props": props if isinstance(props, list) else [props], "expect": "fire", "rule": rule, "edits": edits})


def R(id_, props, edits):
    CORPUS.append({"id": id_, "props": props if isinstance(props, list) else [props], "expect": "silent", "edits": edits})


MSG = "repid/message.py"
MDEP = "repid/dependencies/message_dependency.py"

# ----------------------------------------------------------------------------------------------- C16
M("c16-ack-guard-dropped", "C16", [(MSG, '''    async def ack(self) -> None:
        if self.__read_only:
            raise ValueError("Message is read only.")
''', '''    async def ack(self) -> None:
''')], "R-C16-TYPESTATE")
M("c16-reject-flag-not-set", "C16", [(MSG, '''        await self._connection.message_broker.reject(self._key)

        self.__read_only = True
''', '''        await self._connection.message_broker.reject(self._key)
''')], "R-C16-TYPESTATE")
M("c16-nack-flag-before-call", "C16", [(MSG, '''        await self._connection.message_broker.nack(self._key)

        self.__read_only = True
''', '''        self.__read_only = True

        await self._connection.message_broker.nack(self._key)
''')], "R-C16-TYPESTATE")
M("c16-nack-category-guard-dropped", "C16", [(MSG, '''        if self._category != MessageCategory.NORMAL:
            raise ValueError(f"Can not nack message with category {self._category}.")
''', '')], "R-C16-CATEGORY")
M("c16-retry-category-only-dead", "C16", [(MSG, '''        if self._category != MessageCategory.NORMAL:
            raise ValueError(f"Can not retry message with category {self._category}.")
''', '''        if self._category == MessageCategory.DEAD:
            raise ValueError(f"Can not retry message with category {self._category}.")
''')], "R-C16-CATEGORY")
M("c16-retry-budget-off-by-one", ["C16", "C04"], [(MSG, "if self.parameters.retries.already_tried >= self.parameters.retries.max_amount:",
                                         "if self.parameters.retries.already_tried > self.parameters.retries.max_amount:")])
M("c16-retry-budget-after-flag", "C16", [(MSG, '''        if self.parameters.retries.already_tried >= self.parameters.retries.max_amount:
            raise ValueError("Max retry limit reached.")
''', '''        if self.parameters.retries.already_tried >= self.parameters.retries.max_amount:
            self.__read_only = True
            raise ValueError("Max retry limit reached.")
''')], "R-C16-BUDGET")
M("c16-ack-category-guard-added", "C16", [(MSG, '''    async def ack(self) -> None:
        if self.__read_only:''', '''    async def ack(self) -> None:
        if self._category != MessageCategory.NORMAL:
            raise ValueError("no")
        if self.__read_only:''')], "R-C16-CATEGORY")
M("c16-get_messages-category-dropped", "C16", [("repid/queue.py", "                    _category=category,\n", "")], "R-C16-CATEGORY")
M("c16-eager-callbacks-skipped", ["C16"], [(MDEP, '''        await super().nack()
        await self.__execute_callbacks()
''', '''        await super().nack()
''')], "R-C16-EAGER")
M("c16-eager-callbacks-before-action", ["C16", "C13"], [(MDEP, '''        await super().reject()
        await self.__execute_callbacks()
''', '''        await self.__execute_callbacks()
        await super().reject()
''')], None)
M("c16-eager-wrong-super", "C16", [(MDEP, '''        await super().reschedule()
''', '''        await super().ack()
''')], "R-C16-EAGER")
M("c16-noaction-is-exception", ["C16", "C02"], [("repid/_utils/internal_exceptions.py", "class _NoAction(BaseException):", "class _NoAction(Exception):")])
M("c16-lazy-index-zero", ["C16", "C13"], [(MDEP, '''        self.__result_exception = None

        async def _inner() -> None:''', '''        self.__result_exception = None
        position = 0

        async def _inner() -> None:'''), (MDEP, '''                    ttl=self.parameters.result.ttl,  # type: ignore[union-attr]
                ),
            )

        self.__lazy_result_callback = partial(self._callbacks.insert, len(self._callbacks), _inner)

    def set_exception''', '''                    ttl=self.parameters.result.ttl,  # type: ignore[union-attr]
                ),
            )

        self.__lazy_result_callback = partial(self._callbacks.insert, position, _inner)

    def set_exception''')], "R-C16-CALLBACKS")
M("c16-callbacks-reversed", "C16", [(MDEP, "[await c() for c in self._callbacks]", "[await c() for c in reversed(self._callbacks)]")], "R-C16-CALLBACKS")
M("c16-slot-fired-last", "C16", [(MDEP, '''        self.__lazy_result_callback()
        [await c() for c in self._callbacks]  # execute in order
''', '''        [await c() for c in self._callbacks]  # execute in order
        self.__lazy_result_callback()
''')], "R-C16-CALLBACKS")
R("c16-r-guard-via-property", "C16", [(MSG, '''    async def ack(self) -> None:
        if self.__read_only:''', '''    async def ack(self) -> None:
        if self.read_only:''')])
R("c16-r-category-is-not", "C16", [(MSG, '''        if self._category != MessageCategory.NORMAL:
            raise ValueError(f"Can not nack message with category {self._category}.")
''', '''        if self._category is not MessageCategory.NORMAL:
            raise ValueError(f"Can not nack message with category {self._category}.")
''')])
R("c16-r-budget-not-lt", ["C16", "C04"], [(MSG, "if self.parameters.retries.already_tried >= self.parameters.retries.max_amount:",
                                  "if not self.parameters.retries.already_tried < self.parameters.retries.max_amount:")])
R("c16-r-budget-locals", ["C16", "C04"], [(MSG, '''        if self.parameters.retries.already_tried >= self.parameters.retries.max_amount:
            raise ValueError("Max retry limit reached.")
''', '''        retries = self.parameters.retries
        if retries.max_amount <= retries.already_tried:
            raise ValueError("Max retry limit reached.")
''')])
R("c16-r-flag-guard-first", "C16", [(MSG, '''        if self._category != MessageCategory.NORMAL:
            raise ValueError(f"Can not nack message with category {self._category}.")

        if self.__read_only:
            raise ValueError("Message is read only.")
''', '''        if self.__read_only:
            raise ValueError("Message is read only.")

        if self._category != MessageCategory.NORMAL:
            raise ValueError(f"Can not nack message with category {self._category}.")
''')])
R("c16-r-callbacks-for-loop", "C16", [(MDEP, "        [await c() for c in self._callbacks]  # execute in order\n",
                                       "        for c in self._callbacks:\n            await c()\n")])
