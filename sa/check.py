"""CLI: python -m sa.check Cxx [--tier quick|thorough]   |   python -m sa.check --replay <file>

exit 0: property's structural obligations all discharged (KNOWN-FINDING lines possible)
exit 1: VIOLATION property=<id> replay=<path>
exit 2: ANALYSIS-ERROR (vanished anchor, unsupported syntax, self-test gate failed, internal error)
"""
from __future__ import annotations

import argparse
import importlib
import json
import os
import sys
import time
import traceback

from .engine import VERIF, Ctx, Finding, known_keys, norm
from .model import REPO, AnalysisError


def run_rules(prop: str, tier: str, repo: str = REPO) -> Ctx:
    mod = importlib.import_module(f"sa.rules.{prop}")
    ctx = Ctx(prop, tier, repo)
    mod.run(ctx)
    return ctx


def write_evidence(prop: str, tier: str, ctx: Ctx | None, mod, violations: int, known_hit: list, extra: dict, wall: float,
                   error: str | None = None) -> None:
    os.makedirs(os.path.join(VERIF, "evidence"), exist_ok=True)
    seed = int(os.environ.get("VERIF_SEED", "0") or 0)
    obligations = ctx.obligations if ctx else []
    distinct = {(o.rule, o.instance) for o in obligations if o.nontrivial}
    rules = sorted({o.rule for o in obligations})
    cov = {
        "explanation": (
            "Static rule checking over the parsed source of /repo (ast, event-level CFG with exception/"
            "cancellation edges, resolved call graph, decision tables). Decides the structural clauses listed "
            "under 'decided' - each a necessary condition of the property - and NOT the clauses under "
            "'not_decided' (runtime quantities). " + (getattr(mod, "SUMMARY", "") if mod else "")
        ),
        "decided": getattr(mod, "DECIDED", []) if mod else [],
        "not_decided": getattr(mod, "NOT_DECIDED", []) if mod else [],
        "obligations": len(obligations),
        "discharged": sum(1 for o in obligations if o.ok),
        "evaluations": max(1, len(obligations)),
        "distinct_nontrivial": len(distinct),
        "rule": "one evaluation = one rule instance (rule id x code site / path set / table row set) re-derived "
                "from the current tree; non-trivial = the verdict needed a non-empty path set, table or data-flow "
                "fact (counted by distinct (rule, instance) pairs)",
        "rules_run": rules,
        "samples": (ctx.samples[:60] if ctx else []) or [{"note": "no rule instance evaluated"}],
        "files_parsed": len(ctx.prog.modules) if ctx else 0,
        "functions_in_program": len(list(ctx.prog.iter_functions())) if ctx else 0,
        "functions_analysed": sorted(ctx.functions_analysed) if ctx else [],
        "program_digest": ctx.prog.digest() if ctx else "",
        "known_findings_reported": known_hit,
        "exhaustive": True,
        "notes": ctx.notes if ctx else [],
        "checker_cmd": f"/venv/bin/python -m sa.check {prop} --tier {tier}",
        "trusted_base": getattr(mod, "ASSUMPTIONS", []) if mod else [],
    }
    cov.update(extra)
    if error:
        cov["analysis_error"] = error
    ev = {
        "property_id": prop,
        "tier": tier,
        "seed": seed,
        "level": "other",
        "coverage": cov,
        "assumptions": (getattr(mod, "ASSUMPTIONS", []) if mod else []) + [
            "asyncio: code between two suspension points is atomic; awaits are the only preemption/cancellation points",
            "the analysed program is repid's own source; monkey-patching and user-supplied brokers/converters are out of scope",
        ],
        "wall_s": round(wall, 3),
        "violations": violations,
    }
    with open(os.path.join(VERIF, "evidence", f"{prop}.json"), "w", encoding="utf-8") as fh:
        json.dump(ev, fh, indent=1, default=str)


def report(ctx: Ctx, prop: str) -> tuple[int, list]:
    known = known_keys(prop)
    outdir = os.path.join(VERIF, "out", prop)
    violations = 0
    known_hit = []
    for f in ctx.findings:
        if f.key() in known:
            k = known[f.key()]
            print(f"KNOWN-FINDING: property={prop} {k.get('what', f.message)} [{f.rule} at {f.where}]")
            known_hit.append({"rule": f.rule, "function": f.func, "construct": f.construct})
            continue
        os.makedirs(outdir, exist_ok=True)
        path = os.path.join(outdir, f.slug() + ".json")
        with open(path, "w", encoding="utf-8") as fh:
            json.dump({"property": prop, "rule": f.rule, "function": f.func, "construct": f.construct,
                       "where": f.where, "message": f.message, "detail": f.detail}, fh, indent=1, default=str)
        print(f"VIOLATION property={prop} replay={path}")
        print(f"  rule={f.rule} at {f.where} in {f.func}\n  construct: {f.construct[:200]}\n  {f.message}")
        violations += 1
    return violations, known_hit


def main(argv=None) -> int:
    ap = argparse.ArgumentParser()
    ap.add_argument("prop", nargs="?")
    ap.add_argument("--tier", default=os.environ.get("VERIF_TIER") or "quick", choices=["quick", "thorough"])
    ap.add_argument("--replay")
    ap.add_argument("--repo", default=REPO)
    ap.add_argument("--no-evidence", action="store_true")
    ap.add_argument("--jobs", type=int, default=int(os.environ.get("VERIF_JOBS", "16")))
    a = ap.parse_args(argv)
    t0 = time.time()
    if a.replay:
        with open(a.replay, encoding="utf-8") as fh:
            rp = json.load(fh)
        prop = rp["property"]
        try:
            ctx = run_rules(prop, "quick", a.repo)
        except AnalysisError as exc:
            print(f"ANALYSIS-ERROR {exc}")
            return 2
        hit = [f for f in ctx.findings if f.rule == rp["rule"] and f.func == rp["function"] and f.construct == norm(rp["construct"])]
        if hit:
            f = hit[0]
            print(f"VIOLATION property={prop} replay={a.replay}")
            print(f"  rule={f.rule} at {f.where} in {f.func}\n  construct: {f.construct[:200]}\n  {f.message}")
            return 1
        print(f"replay: rule instance {rp['rule']} / {rp['function']} no longer violated on the current tree")
        return 0
    prop = a.prop
    if not prop:
        ap.error("property id required")
    mod = None
    ctx = None
    try:
        mod = importlib.import_module(f"sa.rules.{prop}")
        ctx = Ctx(prop, a.tier, a.repo)
        mod.run(ctx)
        violations, known_hit = report(ctx, prop)
        extra = {}
        st_fail = []
        if a.tier == "thorough":
            from . import selftest

            extra, st_fail = selftest.run_for(prop, a.repo, a.jobs, main_clean=(violations == 0))
        wall = time.time() - t0
        if not a.no_evidence:
            write_evidence(prop, a.tier, ctx, mod, violations, known_hit, extra, wall)
        n_ok = sum(1 for o in ctx.obligations if o.ok)
        print(f"{prop} [{a.tier}]: {len(ctx.obligations)} rule instances, {n_ok} discharged, {violations} violation(s), "
              f"{len(known_hit)} known finding(s); {len(ctx.prog.modules)} files, {len(ctx.functions_analysed)} functions analysed; "
              f"{wall:.2f}s")
        if violations:
            return 1
        if st_fail:
            for s in st_fail:
                print(f"ANALYSIS-ERROR self-test gate: {s}")
            return 2
        return 0
    except AnalysisError as exc:
        print(f"ANALYSIS-ERROR {exc}")
        if not a.no_evidence:
            write_evidence(prop, a.tier, ctx, mod, 0, [], {}, time.time() - t0, error=str(exc))
        return 2
    except Exception as exc:  # noqa: BLE001
        traceback.print_exc()
        print(f"ANALYSIS-ERROR internal error: {type(exc).__name__}: {exc}")
        if not a.no_evidence:
            try:
                write_evidence(prop, a.tier, ctx, mod, 0, [], {}, time.time() - t0, error=f"{type(exc).__name__}: {exc}")
            except Exception:  # noqa: BLE001
                pass
        return 2


if __name__ == "__main__":
    sys.exit(main())
