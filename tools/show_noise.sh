#!/bin/bash
# usage: show_noise.sh <diff> <prop> ; prints the diff and the check output on the patched copy
d=$1; p=$2
tmp=$(mktemp -d); cp -r /repo/repid $tmp/repid; patch -p1 -s -f -d $tmp -i $d
cd /verif && /venv/bin/python -m sa.check $p --repo $tmp --no-evidence | grep -v "^KNOWN" | cut -c1-700
rm -rf $tmp
