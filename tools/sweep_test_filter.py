#!/usr/bin/env python3
"""Second stage of the operator sweep: for the mutants no check reported, run the pinned test suite on a scratch copy (private network namespace). A mutant that ALSO passes the
tests is a candidate blind spot of both - to be triaged by hand (equivalent / irrelevant to every property / a rule is missing).

usage: sweep_test_filter.py <results.jsonl> <out.jsonl> [--jobs N] [--skip-ops const-num ...]
"""
from __future__ import annotations

import argparse
import json
import os
import shutil
import subprocess
import sys
import tempfile
from concurrent.futures import ThreadPoolExecutor

sys.path.insert(0, os.path.dirname(os.path.abspath(__file__)))
import mutation_sweep as ms  # noqa: E402

REPO = "/repo"


def regenerate(rows):
    """(file, op, line, func, desc) -> mutated source, by re-running the deterministic generator."""
    want = {}
    for r in rows:
        want.setdefault(r["file"], {})[(r["op"], r["line"], r["func"], r["desc"])] = r
    out = []
    for rel, keys in want.items():
        src = open(f"{REPO}/{rel}").read()
        seen = set()
        for op, ln, fn, desc, new in ms.mutants(src):
            k = (op, ln, fn, desc)
            if k in keys and k not in seen:
                seen.add(k)
                out.append((keys[k], new))
    return out


def run_one(job):
    row, new_src = job
    tmp = tempfile.mkdtemp(prefix="swt-")
    try:
        for item in ("repid", "tests", "pyproject.toml", "README.md"):
            s = os.path.join(REPO, item)
            if os.path.isdir(s):
                shutil.copytree(s, os.path.join(tmp, item), ignore=shutil.ignore_patterns("__pycache__"))
            elif os.path.exists(s):
                shutil.copy(s, tmp)
        open(os.path.join(tmp, row["file"]), "w").write(new_src)
        cmd = ("ip link set lo up; cd %s && timeout 400 /venv/bin/python -m pytest -q -x -p no:cacheprovider --timeout=120 --ignore=tests/integration "
               "--deselect tests/test_hypothesis.py::test_job_creation 2>&1 | tail -3") % tmp
        r = subprocess.run(["unshare", "-rn", "sh", "-c", cmd], capture_output=True, text=True)
        tail = r.stdout.strip().splitlines()[-1] if r.stdout.strip() else ""
        import re as _re; passed = " passed" in tail and not _re.search(r"\b\d+ failed", tail) and not _re.search(r"\b\d+ error", tail)
        return {**row, "tests": "pass" if passed else "fail", "tail": tail[:120]}
    finally:
        shutil.rmtree(tmp, ignore_errors=True)


def main():
    ap = argparse.ArgumentParser()
    ap.add_argument("results")
    ap.add_argument("out")
    ap.add_argument("--jobs", type=int, default=12)
    ap.add_argument("--skip-ops", nargs="*", default=[])
    a = ap.parse_args()
    rows = [json.loads(l) for l in open(a.results)]
    silent = [r for r in rows if not r["hits"] and not r["errors"] and r["op"] not in a.skip_ops and r["func"]]
    jobs = regenerate(silent)
    print(f"{len(silent)} silent mutants, {len(jobs)} regenerated", flush=True)
    with open(a.out, "a") as fh, ThreadPoolExecutor(a.jobs) as ex:
        for k, res in enumerate(ex.map(run_one, jobs)):
            fh.write(json.dumps(res) + "\n")
            fh.flush()
            if k % 25 == 0:
                print(k, flush=True)


if __name__ == "__main__":
    main()
