#!/usr/bin/env python3
"""Apply each candidate mutant diff (from /tmp/mut/* or /verif/seeded/*) to a scratch copy and run the built checks."""
import glob, os, shutil, subprocess, sys, tempfile, json
sys.path.insert(0, "/verif")
props = [os.path.basename(p)[:-3] for p in sorted(glob.glob("/verif/sa/rules/C*.py"))]
pats = sys.argv[1:] or ["/tmp/mut/*/mutant_*.diff", "/verif/seeded/*/patch.diff"]
diffs = sorted(d for p in pats for d in glob.glob(p))
def one(d):
    tmp = tempfile.mkdtemp(prefix="mut-")
    shutil.copytree("/repo/repid", tmp + "/repid", ignore=shutil.ignore_patterns("__pycache__"))
    r = subprocess.run(["patch", "-p1", "-s", "-f", "-d", tmp, "-i", d], capture_output=True, text=True)
    if r.returncode != 0:
        shutil.rmtree(tmp)
        return f"{d}: PATCH FAILED {r.stdout[:200]}"
    hits = []
    for p in props:
        r = subprocess.run(["/venv/bin/python", "-m", "sa.check", p, "--repo", tmp, "--no-evidence"], capture_output=True, text=True, cwd="/verif")
        if r.returncode == 1:
            rules = sorted({l.split("rule=")[1].split()[0] for l in r.stdout.splitlines() if "rule=" in l})
            hits.append(f"{p}:{','.join(rules)}")
        elif r.returncode == 2:
            hits.append(f"{p}:ERROR({[l for l in r.stdout.splitlines() if 'ANALYSIS-ERROR' in l][:1]})")
    own = d.split("/")[-2]
    shutil.rmtree(tmp)
    return f"{d.replace('/tmp/mut/','')}: {'CAUGHT ' + ' '.join(hits) if hits else 'missed'}"


from concurrent.futures import ThreadPoolExecutor

with ThreadPoolExecutor(int(os.environ.get("JOBS", "14"))) as ex:
    for line in ex.map(one, diffs):
        print(line, flush=True)
