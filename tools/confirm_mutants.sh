#!/bin/bash
# usage: confirm_mutants.sh <dir with mutant_x.diff/demo_x.py> ... ; confirms each against /repo HEAD in a scratch worktree, in a private netns
set -u
OUT=/tmp/confirm_results
mkdir -p $OUT
confirm_one() {
  d=$1; x=$2; id=$(basename $d)
  if [ -n "${PREFIX:-}" ]; then id="${PREFIX}${id:1}"; fi  # PREFIX=D for round 2 (keeps round-1 results apart)
  tag=${id}_$x
  wt=/tmp/confirm_wt/$tag
  rm -rf $wt; git -C /repo worktree prune
  git -C /repo worktree add -q --detach $wt HEAD || { echo "$tag WORKTREE-FAIL" > $OUT/$tag; return; }
  cd $wt
  demo=$d/demo_$x.py
  run_demo() { unshare -rn sh -c "ip link set lo up; cd $wt && timeout 300 /venv/bin/python -m pytest -q -p no:cacheprovider -x $demo" > $OUT/$tag.$1.log 2>&1; echo $?; }
  clean=$(run_demo clean)
  if ! git apply $d/mutant_$x.diff 2> $OUT/$tag.apply.log; then echo "$tag APPLY-FAIL" > $OUT/$tag; cd /; git -C /repo worktree remove --force $wt; return; fi
  mut=$(run_demo mutant)
  suite=$(unshare -rn sh -c "ip link set lo up; cd $wt && timeout 900 /venv/bin/python -m pytest -q -p no:cacheprovider --timeout=900 --continue-on-collection-errors 2>&1 | tail -1")
  echo "$tag clean_exit=$clean mutant_exit=$mut suite=[$suite]" > $OUT/$tag
  cd /; git -C /repo worktree remove --force $wt
}
export -f confirm_one
export OUT
export PREFIX=${PREFIX:-}
for d in "$@"; do for x in a b; do [ -f $d/mutant_$x.diff ] && echo "$d $x"; done; done | xargs -P 8 -L 1 bash -c 'confirm_one $0 $1'
cat $OUT/${PREFIX:-C}??_? 2>/dev/null | grep -v "^$" | sort
