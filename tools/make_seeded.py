#!/usr/bin/env python3
"""Copies confirmed agent mutants into /verif/seeded/<id>/ with meta.json (run after tools/confirm_mutants.sh)."""
import glob, json, os, re, shutil, subprocess, sys
sys.path.insert(0, "/verif")
res = {}
for f in glob.glob("/tmp/confirm_results/C??_?") + glob.glob("/tmp/confirm_results/D??_?") + glob.glob("/tmp/confirm_results/E??_?") + glob.glob("/tmp/confirm_results/F??_?") + glob.glob("/tmp/confirm_results/G??_?") + glob.glob("/tmp/confirm_results/H??_?"):
    line = open(f).read().strip()
    tag = line.split()[0]
    res[tag] = line
srcdirs = sys.argv[1:] or sorted(glob.glob("/tmp/mut/C??")) + sorted(glob.glob("/tmp/mut2/C??"))
for d in srcdirs:
    rnd = "r6" if "/mut6/" in d else "r5" if "/mut5/" in d else "r4" if "/mut4/" in d else ("r3" if "/mut3/" in d else ("r2" if "/mut2/" in d else "r1"))
    prop = os.path.basename(d)
    for x in "ab":
        tag = f"{prop}_{x}" if rnd == "r1" else f"{ {'r2': 'D', 'r3': 'E', 'r4': 'F', 'r5': 'G', 'r6': 'H'}[rnd] }{prop[1:]}_{x}"
        line = res.get(tag, "")
        if "clean_exit=0 mutant_exit=1" not in line or "194 passed" not in line:
            print("skip", tag, line[:80]); continue
        out = f"/verif/seeded/{prop}-{rnd}{x}"
        os.makedirs(out, exist_ok=True)
        if not os.path.exists(f"{out}/patch.diff"):  # an existing patch may have been re-created on a later /repo commit: keep it
            shutil.copy(f"{d}/mutant_{x}.diff", f"{out}/patch.diff")
            shutil.copy(f"{d}/demo_{x}.py", f"{out}/demo.py")
        old_meta = json.load(open(f"{out}/meta.json")) if os.path.exists(f"{out}/meta.json") else {}
        notes = open(f"{d}/notes.md").read() if os.path.exists(f"{d}/notes.md") else ""
        # which checks catch it (own property first)
        import tempfile
        tmp = tempfile.mkdtemp(prefix="seed-")
        shutil.copytree("/repo/repid", tmp + "/repid", ignore=shutil.ignore_patterns("__pycache__"))
        subprocess.run(["patch", "-p1", "-s", "-f", "-d", tmp, "-i", f"{out}/patch.diff"], check=True)
        caught = {}
        for p in sorted(os.path.basename(q)[:-3] for q in glob.glob("/verif/sa/rules/C??.py")):
            r = subprocess.run(["/venv/bin/python", "-m", "sa.check", p, "--repo", tmp, "--no-evidence"], capture_output=True, text=True, cwd="/verif")
            if r.returncode == 1:
                caught[p] = sorted({l.split("rule=")[1].split()[0] for l in r.stdout.splitlines() if "rule=" in l})
        shutil.rmtree(tmp)
        files = sorted(set(re.findall(r"^\+\+\+ b/(\S+)", open(f"{out}/patch.diff").read(), re.M)))
        meta = {
            "property": prop,
            "origin": f"independent sub-agent (round {rnd[1]}) given only the property text and a scratch worktree of /repo; nothing from /verif",
            "files_changed": files,
            "needs_to_manifest": "see notes (the agent's own description of the trigger)",
            "notes": notes[:6000],
            "confirmed": {
                "how": "tools/confirm_mutants.sh: scratch worktree of /repo HEAD, private network namespace; demo on clean tree, demo with patch applied, full pinned suite with patch applied",
                "result": line,
            },
            "caught_by": caught,
            "caught_by_own_property_check": prop in caught,
        }
        if "rebased" in old_meta:
            meta["rebased"] = old_meta["rebased"]
        json.dump(meta, open(f"{out}/meta.json", "w"), indent=1)
        print(tag, "->", out, "own" if prop in caught else "OTHER-ONLY", caught.get(prop))
