#!/usr/bin/env python3
"""Summarises tools/mutation_sweep.py results: per file and per function, how many operator mutants some check reports."""
import collections, json, sys
path = sys.argv[1] if len(sys.argv) > 1 else "/tmp/sweep/results.jsonl"
rows = [json.loads(l) for l in open(path)]
by = collections.defaultdict(lambda: [0, 0, 0])
for r in rows:
    k = (r["file"], r["func"])
    by[k][0] += 1
    by[k][1] += bool(r["hits"])
    by[k][2] += bool(r["errors"]) and not r["hits"]
tot = len(rows); hit = sum(bool(r["hits"]) for r in rows); err = sum(bool(r["errors"]) and not r["hits"] for r in rows)
print(f"{tot} mutants: {hit} reported as violation, {err} analysis-error only, {tot-hit-err} silent")
for (f, fn), (n, h, e) in sorted(by.items()):
    print(f"{f:52s} {fn:55s} n={n:3d} viol={h:3d} err={e:3d} silent={n-h-e:3d}")
if "--silent" in sys.argv:
    for r in rows:
        if not r["hits"] and not r["errors"]:
            print(f'SILENT {r["file"]}:{r["line"]} {r["func"]} [{r["op"]}] {r["desc"]}')
