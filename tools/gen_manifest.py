#!/usr/bin/env python3
"""Regenerates /verif/MANIFEST.json from the rule modules' metadata."""
import importlib, json, os, sys
sys.path.insert(0, "/verif")
props = [json.loads(l) for l in open("/verif/properties.jsonl")]
checks, na, served = [], [], []
for p in props:
    pid = p["id"]
    path = f"/verif/sa/rules/{pid}.py"
    if not os.path.exists(path):
        na.append({"property_id": pid, "reason": "check not built yet"})
        continue
    mod = importlib.import_module(f"sa.rules.{pid}")
    served.append(pid)
    decided = "; ".join(d.split(":")[0] for d in mod.DECIDED)
    checks.append({
        "property_id": pid,
        "quick_cmd": f"/venv/bin/python -m sa.check {pid} --tier quick",
        "thorough_cmd": f"/venv/bin/python -m sa.check {pid} --tier thorough",
        "evidence_file": f"/verif/evidence/{pid}.json",
        "replay_cmd_template": "/venv/bin/python -m sa.check --replay {path}",
        "engine": "sa",
        "level_claimed": {
            "category": "other",
            "text": ("Static rule checking of the current /repo source (ast, event-level CFG with exception and cancellation edges, resolved call graph, "
                     "decision tables / finite-ordering evaluation): decides the named structural clauses - each a necessary condition of the property, for every input, "
                     "schedule and cancellation point at await granularity - not the behaviour as a whole. Rules: " + decided + ". " + mod.SUMMARY),
            "design_ref": f"DESIGN.md section 4 ({pid})",
        },
        "level_note": ("Decided part only; not decided: " + "; ".join(mod.NOT_DECIDED) + ". Trusted: " + "; ".join(mod.ASSUMPTIONS)
                       + "; asyncio atomicity between awaits; repid's own source is the analysed program (no monkey-patching)."),
        "technique": "static analysis: repository-specific ast/CFG/data-flow rule checker (path rules, typestate, decision tables, sibling cross-checks)",
    })
m = {
    "version": 1,
    "setup_cmd": "true",
    "hooks": {"guard": "REPID_VERIF", "enable": "no hooks: the analyser only reads /repo's source; the guard name REPID_VERIF is reserved and unused",
              "baseline_off_cmd": "cd /repo && /venv/bin/python -m pytest -ra -q -p no:cacheprovider --timeout=900 --continue-on-collection-errors",
              "source_commits": [], "add_only": True},
    "engines": [{"name": "sa", "path": "/verif/sa", "serves_properties": served,
                 "kind_free_text": "repository-specific static analyser (stdlib only): program model, annotation-driven resolver with class-hierarchy analysis, event-level CFG with "
                                   "exception/cancellation edges, inlining, projected trace enumeration, must-pass/dominance queries, three-valued condition evaluation under assumptions"}],
    "checks": checks,
    "notes": ("Static analysis only (see DESIGN.md). Exit codes: 0 held (KNOWN-FINDING lines possible), 1 VIOLATION, 2 ANALYSIS-ERROR. Known findings: /verif/known_findings.json. "
              "Thorough tier = quick rules at greater inlining depth / loop bound + the self-test corpus (must-fire mutants, must-stay-silent refactors) as a non-vacuity gate."),
    "not_applicable": na,
}
json.dump(m, open("/verif/MANIFEST.json", "w"), indent=1)
print(len(checks), "checks,", len(na), "not applicable")
