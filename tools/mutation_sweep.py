#!/usr/bin/env python3
"""Operator-based mutation sweep over the files the properties are anchored in: a coverage map for the checks.

For every anchored file, single-point AST mutants are generated (statement deletion, negated condition, comparison boundary / polarity, and<->or, constant flips,
dropped await, + <-> -, break <-> continue, dropped `not`). Each mutant is written to a scratch copy of /repo/repid and the checks of the properties anchored in that
file are run on it (static analysis only - nothing is executed). The result is a table, per function, of how many mutants some check reports: functions where nothing
is ever reported are blind spots of the rule set. Survivors are NOT automatically misses (many are equivalent or irrelevant to any property); the table is a triage aid.

usage: mutation_sweep.py [--files F ...] [--out DIR] [--jobs N] [--all-props]
"""
from __future__ import annotations

import argparse
import ast
import copy
import json
import os
import shutil
import subprocess
import sys
import tempfile
from concurrent.futures import ThreadPoolExecutor

REPO = "/repo"
CMP = {ast.Lt: ast.LtE, ast.LtE: ast.Lt, ast.Gt: ast.GtE, ast.GtE: ast.Gt, ast.Eq: ast.NotEq, ast.NotEq: ast.Eq, ast.Is: ast.IsNot, ast.IsNot: ast.Is, ast.In: ast.NotIn, ast.NotIn: ast.In}
SKIP_CALL_PREFIX = ("logger.", "warnings.", "warn")


def anchors() -> dict[str, list[str]]:
    out: dict[str, list[str]] = {}
    for line in open("/verif/properties.jsonl"):
        d = json.loads(line)
        for f in d["anchors"]["files"]:
            out.setdefault(f, []).append(d["id"])
    return out


def func_of(tree: ast.AST) -> dict[int, str]:
    owner: dict[int, str] = {}

    def walk(node, name):
        for ch in ast.iter_child_nodes(node):
            nm = name
            if isinstance(ch, (ast.FunctionDef, ast.AsyncFunctionDef, ast.ClassDef)):
                nm = f"{name}.{ch.name}" if name else ch.name
            owner[id(ch)] = nm
            walk(ch, nm)

    walk(tree, "")
    return owner


def is_log(stmt: ast.stmt) -> bool:
    v = stmt.value if isinstance(stmt, ast.Expr) else None
    if isinstance(v, ast.Await):
        v = v.value
    return isinstance(v, ast.Call) and ast.unparse(v.func).startswith(SKIP_CALL_PREFIX)


def is_doc(stmt: ast.stmt) -> bool:
    return isinstance(stmt, ast.Expr) and isinstance(stmt.value, ast.Constant) and isinstance(stmt.value.value, str)


def mutants(src: str):
    """Yields (operator, lineno, function, description, new_source)."""
    tree = ast.parse(src)
    nodes = list(ast.walk(tree))
    owner = func_of(tree)
    index = {id(n): i for i, n in enumerate(nodes)}

    def variant(i, edit):
        t = copy.deepcopy(tree)
        n = list(ast.walk(t))[i]
        if edit(n, t) is False:
            return None
        ast.fix_missing_locations(t)
        try:
            out = ast.unparse(t)
            compile(out, "<m>", "exec")
        except Exception:
            return None
        return out

    for i, n in enumerate(nodes):
        fn = owner.get(id(n), "")
        if not fn or "." not in fn and not isinstance(n, ast.stmt):
            pass
        ln = getattr(n, "lineno", 0)
        # statement deletion
        for fld in ("body", "orelse", "finalbody"):
            seq = getattr(n, fld, None)
            if not isinstance(seq, list) or not seq or not isinstance(seq[0], ast.stmt):
                continue
            if isinstance(n, (ast.Module, ast.ClassDef)):
                continue
            for k, st in enumerate(seq):
                if is_log(st) or is_doc(st) or isinstance(st, (ast.FunctionDef, ast.AsyncFunctionDef, ast.ClassDef, ast.Import, ast.ImportFrom, ast.Pass, ast.Global, ast.Nonlocal)):
                    continue
                if isinstance(st, ast.AnnAssign) and st.value is None:
                    continue

                def edit(m, t, fld=fld, k=k):
                    s = getattr(m, fld)
                    if len(s) == 1:
                        s[k] = ast.Pass()
                    else:
                        del s[k]

                out = variant(i, edit)
                if out:
                    yield "del-stmt", st.lineno, owner.get(id(st), fn), ast.unparse(st)[:80].replace("\n", " "), out
        if isinstance(n, (ast.If, ast.While, ast.IfExp)) and not (isinstance(n, ast.While) and isinstance(n.test, ast.Constant)):
            def edit(m, t):
                m.test = ast.UnaryOp(op=ast.Not(), operand=m.test) if not (isinstance(m.test, ast.UnaryOp) and isinstance(m.test.op, ast.Not)) else m.test.operand
            out = variant(i, edit)
            if out:
                yield "neg-cond", ln, fn, ast.unparse(n.test)[:80], out
        if isinstance(n, ast.Compare) and len(n.ops) == 1 and type(n.ops[0]) in CMP:
            def edit(m, t):
                m.ops = [CMP[type(m.ops[0])]()]
            out = variant(i, edit)
            if out:
                yield "cmp", ln, fn, ast.unparse(n)[:80], out
        if isinstance(n, ast.BoolOp):
            def edit(m, t):
                m.op = ast.Or() if isinstance(m.op, ast.And) else ast.And()
            out = variant(i, edit)
            if out:
                yield "boolop", ln, fn, ast.unparse(n)[:80], out
        if isinstance(n, ast.Constant) and isinstance(n.value, bool):
            def edit(m, t):
                m.value = not m.value
            out = variant(i, edit)
            if out:
                yield "const-bool", ln, fn, repr(n.value), out
        elif isinstance(n, ast.Constant) and isinstance(n.value, (int, float)) and not isinstance(n.value, bool):
            def edit(m, t):
                m.value = m.value + 1
            out = variant(i, edit)
            if out:
                yield "const-num", ln, fn, repr(n.value), out
        if isinstance(n, ast.Expr) and isinstance(n.value, ast.Await) and not is_log(n):
            def edit(m, t):
                m.value = m.value.value
            out = variant(i, edit)
            if out:
                yield "drop-await", ln, fn, ast.unparse(n)[:80], out
        if isinstance(n, ast.BinOp) and isinstance(n.op, (ast.Add, ast.Sub)):
            def edit(m, t):
                m.op = ast.Sub() if isinstance(m.op, ast.Add) else ast.Add()
            out = variant(i, edit)
            if out:
                yield "arith", ln, fn, ast.unparse(n)[:80], out
        if isinstance(n, (ast.Break, ast.Continue)):
            # handled through the parent: replace in place
            pass
        if isinstance(n, ast.UnaryOp) and isinstance(n.op, ast.Not):
            pass  # covered by neg-cond for tests
    # break <-> continue (needs parent access)
    for i, n in enumerate(nodes):
        for fld in ("body", "orelse", "finalbody"):
            seq = getattr(n, fld, None)
            if isinstance(seq, list):
                for k, st in enumerate(seq):
                    if isinstance(st, (ast.Break, ast.Continue)):
                        def edit(m, t, fld=fld, k=k):
                            s = getattr(m, fld)
                            s[k] = ast.Continue() if isinstance(s[k], ast.Break) else ast.Break()
                        out = variant(i, edit)
                        if out:
                            yield "brk-cont", st.lineno, owner.get(id(st), ""), type(st).__name__, out


def run_one(job):
    rel, props, op, ln, fn, desc, new_src = job
    tmp = tempfile.mkdtemp(prefix="sweep-")
    try:
        shutil.copytree(f"{REPO}/repid", tmp + "/repid", ignore=shutil.ignore_patterns("__pycache__"))
        open(f"{tmp}/{rel}", "w").write(new_src)
        hits, errs = [], []
        for p in props:
            r = subprocess.run(["/venv/bin/python", "-m", "sa.check", p, "--repo", tmp, "--no-evidence"], capture_output=True, text=True, cwd="/verif")
            if r.returncode == 1:
                hits.append(p)
            elif r.returncode == 2:
                errs.append(p)
        return {"file": rel, "op": op, "line": ln, "func": fn, "desc": desc, "hits": hits, "errors": errs}
    finally:
        shutil.rmtree(tmp, ignore_errors=True)


def main():
    ap = argparse.ArgumentParser()
    ap.add_argument("--files", nargs="*")
    ap.add_argument("--out", default="/tmp/sweep")
    ap.add_argument("--jobs", type=int, default=8)
    ap.add_argument("--all-props", action="store_true")
    ap.add_argument("--ops", nargs="*")
    ap.add_argument("--funcs", nargs="*", help="only mutants inside functions whose dotted name contains one of these")
    a = ap.parse_args()
    os.makedirs(a.out, exist_ok=True)
    anc = anchors()
    allp = sorted({p for ps in anc.values() for p in ps})
    files = a.files or sorted(anc)
    jobs = []
    for rel in files:
        src = open(f"{REPO}/{rel}").read()
        norm = ast.unparse(ast.parse(src))
        seen = set()
        for op, ln, fn, desc, new in mutants(src):
            if new == norm or new in seen:
                continue
            if a.ops and op not in a.ops:
                continue
            if a.funcs and not any(x in fn for x in a.funcs):
                continue
            seen.add(new)
            jobs.append((rel, allp if a.all_props else anc.get(rel, allp), op, ln, fn, desc, new))
    print(f"{len(jobs)} mutants over {len(files)} files", flush=True)
    with open(f"{a.out}/results.jsonl", "a") as fh, ThreadPoolExecutor(a.jobs) as ex:
        for k, res in enumerate(ex.map(run_one, jobs)):
            fh.write(json.dumps(res) + "\n")
            fh.flush()
            if k % 100 == 0:
                print(k, flush=True)


if __name__ == "__main__":
    main()
