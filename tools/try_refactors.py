#!/usr/bin/env python3
"""Apply each behaviour-preserving refactor diff to a scratch copy and run all checks: any VIOLATION or ANALYSIS-ERROR is a checker bug."""
import glob, os, shutil, subprocess, sys, tempfile
from concurrent.futures import ThreadPoolExecutor
props = os.environ.get("PROPS", "").split() or [os.path.basename(p)[:-3] for p in sorted(glob.glob("/verif/sa/rules/C??.py"))]
pats = sys.argv[1:] or ["/tmp/ref/*/refactor_*.diff", "/verif/refactors/*.diff"]
diffs = sorted(d for p in pats for d in glob.glob(p))
def one(d):
    tmp = tempfile.mkdtemp(prefix="ref-")
    shutil.copytree("/repo/repid", tmp + "/repid", ignore=shutil.ignore_patterns("__pycache__"))
    r = subprocess.run(["patch", "-p1", "-s", "-f", "-d", tmp, "-i", d], capture_output=True, text=True)
    if r.returncode != 0:
        shutil.rmtree(tmp); return d, ["PATCH FAILED"]
    out = []
    for p in props:
        r = subprocess.run(["/venv/bin/python", "-m", "sa.check", p, "--repo", tmp, "--no-evidence"], capture_output=True, text=True, cwd="/verif")
        if r.returncode == 1:
            for l in r.stdout.splitlines():
                if "rule=" in l:
                    out.append(f"{p} {l.strip()[:150]}")
        elif r.returncode == 2:
            out.append(f"{p} " + " | ".join(l for l in r.stdout.splitlines() if "ANALYSIS-ERROR" in l)[:200])
    shutil.rmtree(tmp)
    return d, out
with ThreadPoolExecutor(int(os.environ.get('JOBS', '14'))) as ex:
    res = list(ex.map(one, diffs))
bad = 0
for d, out in res:
    if out:
        bad += 1
        print("NOISY", d.replace("/tmp/ref/", ""))
        for o in out:
            print("    ", o)
print(f"{len(res)} refactors, {bad} noisy")
